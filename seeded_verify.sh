#!/bin/bash
# seeded_verify.sh <dir with patch.diff + verif_demo_test.go> <check ids...>
# Confirms a seeded change (applies, compiles, suite passes, demo fails with / passes without), then runs the given checks against it.
set -u
export GOFLAGS=-mod=mod GOPROXY=off GOSUMDB=off GOTOOLCHAIN=local
D=$1; shift
WT=/tmp/sv-$$
git -C /repo worktree add -q --detach $WT HEAD || exit 2
cleanup() { git -C /repo worktree remove --force $WT; rm -rf /verif/.build/alt-$(echo "$WT" | md5sum | cut -c1-8); }
trap cleanup EXIT
cp $D/verif_demo_test.go $WT/ 2>/dev/null
DEMO=$(cd $WT && go test -vet=off -count=1 -run 'Verif|Demo' . 2>&1 | tail -3)
echo "demo on HEAD: $(echo "$DEMO" | tail -1)"
if ! git -C $WT apply $D/patch.diff; then echo "PATCH DOES NOT APPLY"; exit 3; fi
DEMO2=$(cd $WT && go test -vet=off -count=1 -run 'Verif|Demo' . 2>&1 | grep -E '^(--- FAIL|ok|FAIL|panic)' | head -3)
echo "demo with patch: $(echo $DEMO2)"
rm -f $WT/verif_demo_test.go
SUITE=$(cd $WT && go build -tags verif ./... && go test -vet=off -count=1 ./... 2>&1 | grep -E '^--- FAIL' | grep -v TestSaveLoadNumpy)
echo "suite extra failures: [${SUITE}]"
for id in "$@"; do
  OUT=$(cd /verif && VERIF_REPO=$WT ./check $id quick 2>&1)
  echo "check $id: exit=$? $(echo "$OUT" | grep -c '^VIOLATION') violation sigs; $(echo "$OUT" | grep -A1 '^VIOLATION' | grep signature | head -3 | tr '\n' ' ')"
done
