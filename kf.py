#!/usr/bin/env python3
"""kf.py add <json-object>  — append/replace an entry (by id) in known_findings.json (edit-time tool; checks never write the file)."""
import json, sys
p='/verif/known_findings.json'
d=json.load(open(p))
e=json.loads(sys.argv[2]) if sys.argv[1]=='add' else None
if e:
    d['findings']=[f for f in d['findings'] if f['id']!=e['id']]+[e]
    d['findings'].sort(key=lambda f:f['id'])
    json.dump(d,open(p,'w'),indent=1,ensure_ascii=False)
    print('ok',len(d['findings']))
