// Package core is the shared runtime of the monitors: case groups, the
// write-ahead event log written by a batch child, and the three-valued verdict
// bookkeeping. It contains no knowledge of gorgonia/tensor.
package core

import (
	"bufio"
	"encoding/json"
	"fmt"
	"hash/fnv"
	"math"
	"math/rand"
	"os"
	"path/filepath"
	"reflect"
	"runtime/debug"
	"sort"
	"strings"
	"sync"
)

// Group is a unit of work: a class (or a small family of classes) of cases.
// The list of groups of a property is a pure function of the tier; the PRNG
// handed to Run is seeded from (seed, group key) so every seed exercises every
// group and a run is reproducible.
type Group struct {
	Key string
	Run func(c *Ctx)
}

// Prop is one property's workload + oracle.
type Prop struct {
	ID     string
	Rule   string // how cases are generated and what makes one distinct/non-trivial
	Assume []string
	Groups func(tier string) []Group
	// Flavours lists the build flavours this property wants to be run under
	// (first is primary). Empty means {"plain"}.
	Flavours func(tier string) []string
}

// Violation is one violating case.
type Violation struct {
	Prop    string      `json:"property"`
	Sig     string      `json:"sig"`
	Group   string      `json:"group"`
	Case    string      `json:"case"`
	Desc    interface{} `json:"desc,omitempty"`
	Want    interface{} `json:"want,omitempty"`
	Got     interface{} `json:"got,omitempty"`
	Flavour string      `json:"flavour,omitempty"`
	Seed    int64       `json:"seed"`
	Tier    string      `json:"tier"`
}

// Summary is what a child reports at exit.
type Summary struct {
	T            string         `json:"t"`
	Evals        int64          `json:"evals"`
	Keys         []string       `json:"keys"`
	Samples      []interface{}  `json:"samples"`
	Inconclusive map[string]int `json:"inconclusive"`
	Refused      map[string]int `json:"refused"`
	Tally        map[string]int `json:"tally"`
	ControlsOK   int            `json:"controls_fired"`
	ControlsAll  int            `json:"controls_total"`
	ViolCount    map[string]int `json:"viol_count"`
	GroupsDone   int            `json:"groups_done"`
	Extra        map[string]int `json:"extra"`
}

// Ctx is handed to a group. It is safe for concurrent use (C18 needs that).
type Ctx struct {
	Prop    string
	Tier    string
	Seed    int64
	Flavour string
	Rng     *rand.Rand
	WorkDir string // scratch directory of this run (next to the event log, under /verif/.build); "" in replay mode: the system temp dir
	group   string

	// replay filter: when non-empty only this case key is judged
	OnlyCase string

	mu       sync.Mutex
	w        *bufio.Writer
	f        *os.File
	evals    int64
	keys     map[string]struct{}
	samples  []interface{}
	sampleBy map[string]int
	incon    map[string]int
	refused  map[string]int
	tally    map[string]int
	extra    map[string]int
	ctlOK    int
	ctlAll   int
	violBy   map[string]int
	groups   int
}

const maxWitnessPerSig = 3
const maxSamples = 12

func NewCtx(prop, tier string, seed int64, flavour, logPath string) (*Ctx, error) {
	c := &Ctx{Prop: prop, Tier: tier, Seed: seed, Flavour: flavour,
		keys: map[string]struct{}{}, sampleBy: map[string]int{}, incon: map[string]int{}, refused: map[string]int{},
		tally: map[string]int{}, extra: map[string]int{}, violBy: map[string]int{}}
	if logPath != "" {
		f, err := os.Create(logPath)
		if err != nil {
			return nil, err
		}
		c.WorkDir = filepath.Dir(logPath)
		c.f = f
		c.w = bufio.NewWriterSize(f, 1<<16)
	}
	return c, nil
}

// NewMutedCtx returns a context on which another property's group can be replayed without recording anything: its
// evaluations, samples, controls and violations are kept to itself (and dropped). C13 uses it to harvest the tensors
// the other checks produce.
func NewMutedCtx(parent *Ctx, prop, group string) *Ctx {
	c, _ := NewCtx(prop, parent.Tier, parent.Seed, parent.Flavour, "")
	c.WorkDir = parent.WorkDir
	c.group = group
	c.Rng = rand.New(rand.NewSource(SeedFor(parent.Seed, prop+"/"+group)))
	return c
}

// Sanitize makes a value JSON-encodable: non-finite floats and complex numbers become strings.
func Sanitize(v interface{}) interface{} {
	switch x := v.(type) {
	case nil:
		return nil
	case float64:
		if math.IsNaN(x) || math.IsInf(x, 0) {
			return fmt.Sprint(x)
		}
		return x
	case float32:
		if x != x || math.IsInf(float64(x), 0) {
			return fmt.Sprint(x)
		}
		return x
	case complex64, complex128:
		return fmt.Sprint(x)
	case map[string]interface{}:
		out := make(map[string]interface{}, len(x))
		for k, e := range x {
			out[k] = Sanitize(e)
		}
		return out
	case []interface{}:
		out := make([]interface{}, len(x))
		for i, e := range x {
			out[i] = Sanitize(e)
		}
		return out
	case error:
		return x.Error()
	}
	rv := reflect.ValueOf(v)
	switch rv.Kind() {
	case reflect.Slice, reflect.Array:
		out := make([]interface{}, rv.Len())
		for i := range out {
			out[i] = Sanitize(rv.Index(i).Interface())
		}
		return out
	case reflect.Map:
		out := map[string]interface{}{}
		for _, k := range rv.MapKeys() {
			out[fmt.Sprint(k.Interface())] = Sanitize(rv.MapIndex(k).Interface())
		}
		return out
	case reflect.Func, reflect.Chan, reflect.UnsafePointer:
		return fmt.Sprintf("<%s>", rv.Kind())
	}
	return v
}

func (c *Ctx) emit(v interface{}) {
	if c.w == nil {
		return
	}
	b, err := json.Marshal(v)
	if err != nil {
		fmt.Fprintf(os.Stderr, "event log: cannot encode a %T record: %v\n", v, err)
		b, _ = json.Marshal(map[string]string{"t": "marshal-error", "err": err.Error()})
	}
	c.w.Write(b)
	c.w.WriteByte('\n')
}

// SeedFor derives a deterministic sub-seed.
func SeedFor(seed int64, key string) int64 {
	h := fnv.New64a()
	fmt.Fprintf(h, "%d|%s", seed, key)
	return int64(h.Sum64() & 0x7fffffffffffffff)
}

// RunGroup runs g with a fresh PRNG and a write-ahead begin record. A panic
// escaping the group is a harness bug (library panics are caught at the call
// sites) and is recorded as inconclusive, loudly.
func (c *Ctx) RunGroup(g Group) {
	c.mu.Lock()
	c.group = g.Key
	c.Rng = rand.New(rand.NewSource(SeedFor(c.Seed, g.Key)))
	c.emit(map[string]interface{}{"t": "begin", "group": g.Key})
	if c.w != nil {
		c.w.Flush()
	}
	c.mu.Unlock()
	func() {
		defer func() {
			if r := recover(); r != nil {
				c.mu.Lock()
				c.incon["harness-panic"]++
				c.emit(map[string]interface{}{"t": "harness-panic", "group": g.Key, "panic": fmt.Sprint(r), "stack": string(debug.Stack())})
				c.mu.Unlock()
			}
		}()
		g.Run(c)
	}()
	c.mu.Lock()
	c.groups++
	c.emit(map[string]interface{}{"t": "end", "group": g.Key})
	c.mu.Unlock()
}

// Begin writes a write-ahead record for a case that may crash the process
// (used before calls that can die with a fatal runtime error).
func (c *Ctx) Begin(caseKey string) {
	c.mu.Lock()
	c.emit(map[string]interface{}{"t": "case", "group": c.group, "case": caseKey})
	if c.w != nil {
		c.w.Flush()
	}
	c.mu.Unlock()
}

// Digest records the canonical outcome of a case so that the parent can compare the same case across build flavours.
func (c *Ctx) Digest(caseKey, class, digest string) {
	c.mu.Lock()
	c.emit(map[string]interface{}{"t": "digest", "k": c.group + "::" + caseKey, "c": class, "d": digest})
	c.mu.Unlock()
}

// Eval counts one oracle comparison. classKey identifies the class of the case;
// nontrivial says whether the case is non-trivial by the property's rule.
func (c *Ctx) Eval(classKey string, nontrivial bool) {
	c.mu.Lock()
	c.evals++
	if nontrivial {
		c.keys[classKey] = struct{}{}
	}
	c.mu.Unlock()
}

// EvalN counts n oracle comparisons of the same class.
func (c *Ctx) EvalN(classKey string, nontrivial bool, n int) {
	c.mu.Lock()
	c.evals += int64(n)
	if nontrivial {
		c.keys[classKey] = struct{}{}
	}
	c.mu.Unlock()
}

func (c *Ctx) Tally(k string) {
	c.mu.Lock()
	c.tally[k]++
	c.mu.Unlock()
}

func (c *Ctx) Extra(k string, n int) {
	c.mu.Lock()
	c.extra[k] += n
	c.mu.Unlock()
}

// Sample keeps a few written-out cases (at most one per kind) for the evidence file.
func (c *Ctx) Sample(kind string, v interface{}) {
	c.mu.Lock()
	if c.sampleBy[kind] == 0 && len(c.samples) < maxSamples {
		c.sampleBy[kind]++
		c.samples = append(c.samples, map[string]interface{}{"kind": kind, "group": c.group, "case": Sanitize(v)})
	}
	c.mu.Unlock()
}

func (c *Ctx) WantSample(kind string) bool {
	c.mu.Lock()
	defer c.mu.Unlock()
	return c.sampleBy[kind] == 0 && len(c.samples) < maxSamples
}

func (c *Ctx) Inconclusive(reason string) {
	c.mu.Lock()
	c.incon[reason]++
	c.mu.Unlock()
}

func (c *Ctx) Refused(kind string) {
	c.mu.Lock()
	c.refused[kind]++
	c.mu.Unlock()
}

// Control records the outcome of a negative control (an oracle run against a
// deliberately corrupted expectation must fire).
func (c *Ctx) Control(fired bool) {
	c.mu.Lock()
	c.ctlAll++
	if fired {
		c.ctlOK++
	}
	c.mu.Unlock()
}

// Violation records a violating case. Only the first few witnesses per
// signature are written out; all are counted.
func (c *Ctx) Violation(sig, caseKey string, desc, want, got interface{}) {
	c.mu.Lock()
	defer c.mu.Unlock()
	if c.Flavour != "" && c.Flavour != "plain" && c.Flavour != "cover" && c.Flavour != "race" { // cover and race builds are the default build plus instrumentation: same signatures
		sig += "@" + c.Flavour
	}
	c.violBy[sig]++
	if c.violBy[sig] <= maxWitnessPerSig {
		c.emit(map[string]interface{}{"t": "viol", "v": Violation{Prop: c.Prop, Sig: sig, Group: c.group, Case: caseKey,
			Desc: Sanitize(desc), Want: Sanitize(want), Got: Sanitize(got), Flavour: c.Flavour, Seed: c.Seed, Tier: c.Tier}})
		if c.w != nil {
			c.w.Flush()
		}
	}
}

func (c *Ctx) ViolCount() int {
	c.mu.Lock()
	defer c.mu.Unlock()
	n := 0
	for _, v := range c.violBy {
		n += v
	}
	return n
}

func (c *Ctx) ViolBySig() map[string]int {
	c.mu.Lock()
	defer c.mu.Unlock()
	m := map[string]int{}
	for k, v := range c.violBy {
		m[k] = v
	}
	return m
}

// Close writes the summary record.
func (c *Ctx) Close() error {
	c.mu.Lock()
	defer c.mu.Unlock()
	keys := make([]string, 0, len(c.keys))
	for k := range c.keys {
		keys = append(keys, k)
	}
	sort.Strings(keys)
	c.emit(Summary{T: "summary", Evals: c.evals, Keys: keys, Samples: c.samples, Inconclusive: c.incon, Refused: c.refused,
		Tally: c.tally, ControlsOK: c.ctlOK, ControlsAll: c.ctlAll, ViolCount: c.violBy, GroupsDone: c.groups, Extra: c.extra})
	if c.w != nil {
		if err := c.w.Flush(); err != nil {
			return err
		}
		return c.f.Close()
	}
	return nil
}

// Sig builds a signature string from parts.
func Sig(parts ...string) string { return strings.Join(parts, "|") }

// Catch runs f, converting a panic into (panicked=true, msg).
func Catch(f func()) (panicked bool, msg string) {
	defer func() {
		if r := recover(); r != nil {
			panicked = true
			msg = fmt.Sprint(r)
			if len(msg) > 300 {
				msg = msg[:300]
			}
		}
	}()
	f()
	return
}
