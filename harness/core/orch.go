package core

import (
	"bufio"
	"context"
	"crypto/sha1"
	"encoding/json"
	"fmt"
	"os"
	"os/exec"
	"path/filepath"
	"runtime"
	"sort"
	"strings"
	"sync"
	"time"
)

// KnownFinding is one entry of /verif/known_findings.json (read-only at run time).
type KnownFinding struct {
	ID           string   `json:"id"`
	Status       string   `json:"status"` // open | fixed
	Properties   []string `json:"properties"`
	Signatures   []string `json:"signatures"`
	CallSite     string   `json:"call_site"`
	FailingInput string   `json:"failing_input"`
	WhatFails    string   `json:"what_fails"`
	Commit       string   `json:"commit,omitempty"`
	WhyNotFixed  string   `json:"why_not_fixed,omitempty"`
	Record       string   `json:"record,omitempty"`
}

type KnownFile struct {
	Findings []KnownFinding `json:"findings"`
}

func LoadKnown(path string) (*KnownFile, error) {
	b, err := os.ReadFile(path)
	if err != nil {
		if os.IsNotExist(err) {
			return &KnownFile{}, nil
		}
		return nil, err
	}
	var k KnownFile
	if err := json.Unmarshal(b, &k); err != nil {
		return nil, err
	}
	return &k, nil
}

// Match returns the open finding listing (prop, sig), or nil.
func (k *KnownFile) Match(prop, sig string) *KnownFinding {
	for i := range k.Findings {
		f := &k.Findings[i]
		if f.Status != "open" {
			continue
		}
		okp := false
		for _, p := range f.Properties {
			if p == prop {
				okp = true
			}
		}
		if !okp {
			continue
		}
		for _, s := range f.Signatures {
			if s == sig {
				return f
			}
		}
	}
	return nil
}

// OrchConfig configures a parent run.
type OrchConfig struct {
	Prop      *Prop
	Tier      string
	Seed      int64
	VerifDir  string            // /verif
	Bins      map[string]string // flavour -> binary path
	Shards    int
	ChildTime time.Duration
	RepoRev   string
}

type childResult struct {
	flavour string
	shard   int
	logPath string
	errPath string
	exitErr error
	timeout bool
}

type merged struct {
	evals     int64
	keys      map[string]struct{}
	samples   []interface{}
	incon     map[string]int
	refused   map[string]int
	tally     map[string]int
	extra     map[string]int
	ctlOK     int
	ctlAll    int
	violBy    map[string]int
	witnesses map[string][]Violation
	groups    int
	crashes   []Violation
	digests   map[string]map[string][2]string // flavour -> case key -> (class, digest)
}

func parseLog(path string, m *merged, flavour string, prop string, seed int64, tier string) (summarySeen bool, lastOpen string, lastCase string) {
	f, err := os.Open(path)
	if err != nil {
		return false, "", ""
	}
	defer f.Close()
	sc := bufio.NewScanner(f)
	sc.Buffer(make([]byte, 1<<20), 1<<28)
	for sc.Scan() {
		line := sc.Bytes()
		var head struct {
			T     string `json:"t"`
			Group string `json:"group"`
			Case  string `json:"case"`
			K     string `json:"k"`
			C     string `json:"c"`
			D     string `json:"d"`
		}
		if json.Unmarshal(line, &head) != nil {
			continue
		}
		switch head.T {
		case "digest":
			if m.digests == nil {
				m.digests = map[string]map[string][2]string{}
			}
			if m.digests[flavour] == nil {
				m.digests[flavour] = map[string][2]string{}
			}
			m.digests[flavour][head.K] = [2]string{head.C, head.D}
		case "begin":
			lastOpen = head.Group
			lastCase = ""
		case "case":
			lastCase = head.Case
		case "end":
			lastOpen = ""
			lastCase = ""
		case "marshal-error":
			fmt.Fprintf(os.Stderr, "a record of %s could not be encoded: %s\n", path, string(line))
		case "harness-panic":
			fmt.Fprintf(os.Stderr, "harness panic in group %s: %s\n", head.Group, string(line))
		case "viol":
			var w struct {
				V Violation `json:"v"`
			}
			if json.Unmarshal(line, &w) == nil {
				if len(m.witnesses[w.V.Sig]) < maxWitnessPerSig {
					m.witnesses[w.V.Sig] = append(m.witnesses[w.V.Sig], w.V)
				}
			}
		case "summary":
			var s Summary
			if json.Unmarshal(line, &s) == nil {
				summarySeen = true
				m.evals += s.Evals
				for _, k := range s.Keys {
					m.keys[k] = struct{}{}
				}
				m.samples = append(m.samples, s.Samples...)
				for k, v := range s.Inconclusive {
					m.incon[k] += v
				}
				for k, v := range s.Refused {
					m.refused[k] += v
				}
				for k, v := range s.Tally {
					m.tally[k] += v
				}
				for k, v := range s.Extra {
					m.extra[k] += v
				}
				m.ctlOK += s.ControlsOK
				m.ctlAll += s.ControlsAll
				for k, v := range s.ViolCount {
					m.violBy[k] += v
				}
				m.groups += s.GroupsDone
			}
		}
	}
	return
}

func firstFatalLine(errPath string) string {
	b, err := os.ReadFile(errPath)
	if err != nil {
		return ""
	}
	for _, l := range strings.Split(string(b), "\n") {
		if strings.HasPrefix(l, "fatal error:") || strings.HasPrefix(l, "panic:") || strings.Contains(l, "ERROR: AddressSanitizer") {
			if len(l) > 160 {
				l = l[:160]
			}
			return l
		}
	}
	return ""
}

// FlavoursFor lists the builds a check runs under at a tier: the ones it registers, plus, at the thorough tier, the
// coverage build (the default build with counters) whose only output is the list of library functions the workload
// reached, and whatever VERIF_EXTRA_FLAVOUR names.
func FlavoursFor(p *Prop, tier string) []string {
	fl := []string{"plain"}
	if p.Flavours != nil {
		fl = append([]string{}, p.Flavours(tier)...)
	}
	add := func(x string) {
		for _, f := range fl {
			if f == x {
				return
			}
		}
		fl = append(fl, x)
	}
	if tier == "thorough" {
		add("cover")
	}
	if x := os.Getenv("VERIF_EXTRA_FLAVOUR"); x != "" {
		add(x)
	}
	return fl
}

// Orchestrate runs all shards of all flavours, merges the logs, applies the
// known-findings list, prints the verdict lines and writes the evidence file.
// It returns the process exit code.
func Orchestrate(cfg OrchConfig) int {
	start := time.Now()
	p := cfg.Prop
	flavours := FlavoursFor(p, cfg.Tier)
	if only := os.Getenv("VERIF_ONLY_FLAVOUR"); only != "" {
		flavours = []string{only} // debugging aid; evidence then lists only this flavour
	}
	logDir := filepath.Join(cfg.VerifDir, ".build", "logs", p.ID)
	os.RemoveAll(logDir)
	os.MkdirAll(logDir, 0o755)
	ngroups := len(p.Groups(cfg.Tier))
	shards := cfg.Shards
	if shards > ngroups {
		shards = ngroups
	}
	if shards < 1 {
		shards = 1
	}
	var results []childResult
	var mu sync.Mutex
	for _, fl := range flavours {
		bin, ok := cfg.Bins[fl]
		if !ok {
			fmt.Fprintf(os.Stderr, "no binary for flavour %s\n", fl)
			return 2
		}
		var wg sync.WaitGroup
		sem := make(chan struct{}, runtime.NumCPU())
		for i := 0; i < shards; i++ {
			wg.Add(1)
			sem <- struct{}{}
			go func(i int) {
				defer wg.Done()
				defer func() { <-sem }()
				lp := filepath.Join(logDir, fmt.Sprintf("%s-%d.jsonl", fl, i))
				ep := filepath.Join(logDir, fmt.Sprintf("%s-%d.err", fl, i))
				ctx, cancel := context.WithTimeout(context.Background(), cfg.ChildTime)
				defer cancel()
				cmd := exec.CommandContext(ctx, bin, "batch", "-prop", p.ID, "-tier", cfg.Tier, "-seed", fmt.Sprint(cfg.Seed),
					"-shard", fmt.Sprint(i), "-n", fmt.Sprint(shards), "-log", lp, "-flavour", fl)
				ef, _ := os.Create(ep)
				cmd.Stdout = ef
				cmd.Stderr = ef
				cmd.Env = append(os.Environ(), "GOTRACEBACK=all")
				if fl == "race" {
					// reports go to a log per child and do not end the child: all of them are collected, then judged by the parent
					cmd.Env = append(cmd.Env, "GORACE=halt_on_error=0 exitcode=0 log_path="+filepath.Join(logDir, fmt.Sprintf("racelog-%d", i)))
				}
				if fl == "cover" {
					cd := filepath.Join(logDir, "covdata")
					os.MkdirAll(cd, 0o755)
					cmd.Env = append(cmd.Env, "GOCOVERDIR="+cd)
				}
				err := cmd.Run()
				ef.Close()
				mu.Lock()
				results = append(results, childResult{flavour: fl, shard: i, logPath: lp, errPath: ep, exitErr: err, timeout: ctx.Err() == context.DeadlineExceeded})
				mu.Unlock()
			}(i)
		}
		wg.Wait()
	}
	m := &merged{keys: map[string]struct{}{}, incon: map[string]int{}, refused: map[string]int{}, tally: map[string]int{}, extra: map[string]int{},
		violBy: map[string]int{}, witnesses: map[string][]Violation{}}
	broken := false
	sort.Slice(results, func(i, j int) bool {
		if results[i].flavour != results[j].flavour {
			return results[i].flavour < results[j].flavour
		}
		return results[i].shard < results[j].shard
	})
	for _, r := range results {
		seen, open, lastCase := parseLog(r.logPath, m, r.flavour, p.ID, cfg.Seed, cfg.Tier)
		if seen && r.exitErr == nil {
			continue
		}
		if r.timeout {
			m.incon["watchdog:"+open]++
			fmt.Fprintf(os.Stderr, "child %s/%d hit the wall-clock watchdog in group %q (inconclusive)\n", r.flavour, r.shard, open)
			broken = true
			continue
		}
		fatal := firstFatalLine(r.errPath)
		if fatal == "" {
			fmt.Fprintf(os.Stderr, "child %s/%d exited abnormally (%v) without a fatal line; see %s\n", r.flavour, r.shard, r.exitErr, r.errPath)
			broken = true
			continue
		}
		kind := "fatal"
		if strings.HasPrefix(fatal, "panic:") {
			kind = "panic"
		}
		cls := fatal
		if i := strings.Index(cls, ":"); i >= 0 && len(cls) > i+40 {
			cls = cls[:i+40]
		}
		sig := Sig("process-"+kind, groupClass(open), cls)
		v := Violation{Prop: p.ID, Sig: sig, Group: open, Case: lastCase, Desc: map[string]string{"stderr": r.errPath, "first": fatal}, Flavour: r.flavour, Seed: cfg.Seed, Tier: cfg.Tier}
		m.violBy[sig]++
		m.witnesses[sig] = append(m.witnesses[sig], v)
	}

	// offline checker over the recorded outcome logs: the same case must have the same canonical outcome in every build flavour
	if base := m.digests["plain"]; base != nil {
		compared := 0
		for fl, dm := range m.digests {
			if fl == "plain" {
				continue
			}
			keys := make([]string, 0, len(dm))
			for k := range dm {
				keys = append(keys, k)
			}
			sort.Strings(keys)
			for _, k := range keys {
				b, ok := base[k]
				if !ok {
					continue
				}
				compared++
				if b[1] != dm[k][1] {
					sig := Sig("differs-from-default-build", dm[k][0]) + "@" + fl
					m.violBy[sig]++
					if len(m.witnesses[sig]) < maxWitnessPerSig {
						grp, cs := k, k
						if i := strings.Index(k, "::"); i >= 0 {
							grp, cs = k[:i], k[i+2:]
						}
						m.witnesses[sig] = append(m.witnesses[sig], Violation{Prop: p.ID, Sig: sig, Group: grp, Case: cs, Want: "default build: " + b[1], Got: fl + " build: " + dm[k][1], Flavour: fl, Seed: cfg.Seed, Tier: cfg.Tier})
					}
				}
			}
		}
		m.extra["outcomes_compared_across_builds"] += compared
	}

	raceBlocks, raceDistinct, harnessRaces := 0, 0, 0
	for _, fl := range flavours {
		if fl != "race" {
			continue
		}
		files, _ := filepath.Glob(filepath.Join(logDir, "racelog-*"))
		sort.Strings(files)
		seenSig := map[string]bool{}
		for _, f := range files {
			for _, rr := range parseRaceLog(f) {
				raceBlocks++
				if rr.sig == "" {
					harnessRaces++
					fmt.Fprintf(os.Stderr, "race report without a gorgonia.org/tensor frame (harness or runtime), see %s:\n%s\n", f, rr.head)
					continue
				}
				sig := rr.sig + "@race"
				if !seenSig[sig] {
					seenSig[sig] = true
					raceDistinct++
				}
				m.violBy[sig]++
				if len(m.witnesses[sig]) < maxWitnessPerSig {
					m.witnesses[sig] = append(m.witnesses[sig], Violation{Prop: p.ID, Sig: sig, Group: "", Case: "race-report", Desc: map[string]string{"log": f, "report": rr.head}, Flavour: "race", Seed: cfg.Seed, Tier: cfg.Tier})
				}
			}
		}
		m.extra["race_report_blocks"] += raceBlocks
		m.extra["race_report_distinct"] += raceDistinct
		if harnessRaces > 0 {
			broken = true
		}
	}

	known, err := LoadKnown(filepath.Join(cfg.VerifDir, "known_findings.json"))
	if err != nil {
		fmt.Fprintf(os.Stderr, "cannot read known_findings.json: %v\n", err)
		return 2
	}
	sigs := make([]string, 0, len(m.violBy))
	for s := range m.violBy {
		sigs = append(sigs, s)
	}
	sort.Strings(sigs)
	replayDir := filepath.Join(cfg.VerifDir, "replays", p.ID)
	os.RemoveAll(replayDir) // witnesses of earlier runs (other seeds, seeded changes) would only confuse: one run, its own replays
	os.MkdirAll(replayDir, 0o755)
	unlisted := 0
	knownHit := map[string]int{}
	var violList []map[string]interface{}
	for _, s := range sigs {
		if kf := known.Match(p.ID, s); kf != nil {
			knownHit[kf.ID+" "+s] = m.violBy[s]
			fmt.Printf("KNOWN-FINDING: property=%s %s [%s] — %s (%d cases)\n", p.ID, s, kf.ID, kf.WhatFails, m.violBy[s])
			continue
		}
		unlisted++
		h := sha1.Sum([]byte(s))
		path := filepath.Join(replayDir, fmt.Sprintf("%x.json", h[:6]))
		rep := map[string]interface{}{"property": p.ID, "sig": s, "count": m.violBy[s], "repo_rev": cfg.RepoRev}
		if ws := m.witnesses[s]; len(ws) > 0 {
			rep["witness"] = ws[0]
			rep["more"] = ws[1:]
		}
		b, _ := json.MarshalIndent(rep, "", " ")
		os.WriteFile(path, b, 0o644)
		fmt.Printf("VIOLATION property=%s replay=%s\n", p.ID, path)
		fmt.Printf("  signature: %s (%d cases)\n", s, m.violBy[s])
		violList = append(violList, map[string]interface{}{"sig": s, "count": m.violBy[s], "replay": path})
	}
	totalViol := 0
	for _, n := range m.violBy {
		totalViol += n
	}

	// evidence
	samples := dedupeSamples(m.samples)
	cov := map[string]interface{}{
		"evaluations":         m.evals,
		"distinct_nontrivial": len(m.keys),
		"rule":                p.Rule,
		"samples":             samples,
		"exhaustive":          false,
		"groups_run":          m.groups,
		"groups_total":        ngroups * len(flavours),
		"flavours":            flavours,
		"tally":               m.tally,
		"inconclusive":        m.incon,
		"refused":             m.refused,
		"controls_fired":      m.ctlOK,
		"controls_total":      m.ctlAll,
		"known_findings_hit":  knownHit,
		"unlisted_violations": violList,
		"extra":               m.extra,
	}
	for _, fl := range flavours {
		if fl == "cover" {
			fc, err := functionCoverage(filepath.Join(logDir, "covdata"), cfg.VerifDir, p.ID)
			if err != nil {
				fmt.Fprintf(os.Stderr, "function coverage could not be computed: %v\n", err)
				broken = true
			} else {
				cov["function_coverage"] = fc
			}
			os.RemoveAll(filepath.Join(logDir, "covdata"))
		}
	}
	ev := map[string]interface{}{
		"property_id": p.ID, "tier": cfg.Tier, "seed": cfg.Seed, "level": "exploration",
		"coverage": cov, "assumptions": p.Assume, "wall_s": time.Since(start).Seconds(), "violations": totalViol,
		"repo_rev": cfg.RepoRev,
	}
	os.MkdirAll(filepath.Join(cfg.VerifDir, "evidence"), 0o755)
	b, _ := json.MarshalIndent(ev, "", " ")
	if err := os.WriteFile(filepath.Join(cfg.VerifDir, "evidence", p.ID+".json"), b, 0o644); err != nil {
		fmt.Fprintf(os.Stderr, "cannot write evidence: %v\n", err)
		return 2
	}
	inc := 0
	for _, n := range m.incon {
		inc += n
	}
	fmt.Printf("SUMMARY property=%s tier=%s seed=%d evaluations=%d distinct=%d groups=%d/%d violations=%d (unlisted signatures %d, known %d) inconclusive=%d controls=%d/%d wall=%.1fs\n",
		p.ID, cfg.Tier, cfg.Seed, m.evals, len(m.keys), m.groups, ngroups*len(flavours), totalViol, unlisted, len(knownHit), inc, m.ctlOK, m.ctlAll, time.Since(start).Seconds())
	if unlisted > 0 {
		return 1
	}
	if m.incon["harness-panic"] > 0 {
		fmt.Fprintf(os.Stderr, "%d group(s) died with a panic in the harness itself (see the harness-panic records in %s): the check is broken\n", m.incon["harness-panic"], logDir)
		return 2
	}
	if broken {
		fmt.Fprintln(os.Stderr, "check is inconclusive/broken: a child did not finish (see messages above)")
		return 2
	}
	if m.evals == 0 || len(m.keys) < 2 {
		fmt.Fprintln(os.Stderr, "check observed nothing (no evaluations)")
		return 2
	}
	if m.ctlAll == 0 || m.ctlOK != m.ctlAll {
		fmt.Fprintf(os.Stderr, "negative controls did not all fire (%d/%d): the monitors are not trustworthy\n", m.ctlOK, m.ctlAll)
		return 2
	}
	if m.groups != ngroups*len(flavours) {
		fmt.Fprintf(os.Stderr, "only %d of %d groups completed\n", m.groups, ngroups*len(flavours))
		return 2
	}
	return 0
}

func groupClass(g string) string {
	if i := strings.Index(g, "#"); i >= 0 {
		return g[:i]
	}
	return g
}

func dedupeSamples(in []interface{}) []interface{} {
	seen := map[string]bool{}
	var out []interface{}
	for _, s := range in {
		k := ""
		if mm, ok := s.(map[string]interface{}); ok {
			k = fmt.Sprint(mm["kind"])
		}
		if seen[k] {
			continue
		}
		seen[k] = true
		out = append(out, s)
		if len(out) >= 16 {
			break
		}
	}
	return out
}


// functionCoverage merges the counter files the cover-flavour children wrote and reports, per source file of
// gorgonia/tensor, how many functions the workload entered (go tool covdata func). The list of functions not entered
// is written next to the evidence (evidence/<id>.unreached.txt) and summarised per file.
func functionCoverage(dir, verifDir, id string) (map[string]interface{}, error) {
	cmd := exec.Command("go", "tool", "covdata", "func", "-i="+dir)
	out, err := cmd.Output()
	if err != nil {
		return nil, fmt.Errorf("go tool covdata: %v", err)
	}
	type fileCov struct{ total, hit int }
	files := map[string]*fileCov{}
	var unreached []string
	total, hit := 0, 0
	for _, l := range strings.Split(string(out), "\n") {
		f := strings.Fields(l)
		if len(f) != 3 || !strings.HasPrefix(f[0], "gorgonia.org/tensor") {
			continue
		}
		file := f[0]
		if i := strings.Index(file, ".go:"); i >= 0 {
			file = file[:i+3]
		}
		file = strings.TrimPrefix(file, "gorgonia.org/tensor/")
		fc := files[file]
		if fc == nil {
			fc = &fileCov{}
			files[file] = fc
		}
		fc.total++
		total++
		if f[2] != "0.0%" {
			fc.hit++
			hit++
		} else {
			unreached = append(unreached, file+":"+f[1])
		}
	}
	if total == 0 {
		return nil, fmt.Errorf("no functions of gorgonia.org/tensor in the coverage data")
	}
	sort.Strings(unreached)
	os.WriteFile(filepath.Join(verifDir, "evidence", id+".unreached.txt"), []byte(strings.Join(unreached, "\n")+"\n"), 0o644)
	per := map[string]string{}
	for f, fc := range files {
		per[f] = fmt.Sprintf("%d/%d", fc.hit, fc.total)
	}
	return map[string]interface{}{"functions_entered": hit, "functions_total": total, "per_file": per,
		"unreached_list": "evidence/" + id + ".unreached.txt", "unreached": len(unreached)}, nil
}


type raceReport struct {
	sig  string // "" when no stack of the report has a gorgonia.org/tensor frame
	head string
}

// parseRaceLog splits a race detector log into report blocks and names each by the outermost and innermost
// gorgonia.org/tensor functions of the two conflicting accesses (line numbers and addresses dropped, pair sorted).
func parseRaceLog(path string) []raceReport {
	b, err := os.ReadFile(path)
	if err != nil {
		return nil
	}
	var out []raceReport
	for _, blk := range strings.Split(string(b), "==================") {
		if !strings.Contains(blk, "WARNING: DATA RACE") {
			continue
		}
		lines := strings.Split(blk, "\n")
		var stacks [][]string
		var cur []string
		in := false
		for _, l := range lines {
			tl := strings.TrimSpace(l)
			isAccess := strings.HasPrefix(tl, "Write at") || strings.HasPrefix(tl, "Read at") || strings.HasPrefix(tl, "Previous write at") || strings.HasPrefix(tl, "Previous read at") ||
				strings.HasPrefix(tl, "Atomic") || strings.HasPrefix(tl, "Previous atomic")
			switch {
			case isAccess:
				if in {
					stacks = append(stacks, cur)
				}
				cur, in = nil, true
			case in && tl == "":
				stacks = append(stacks, cur)
				cur, in = nil, false
			case in && strings.HasPrefix(l, "  ") && !strings.HasPrefix(l, "      "):
				fn := tl
				if i := strings.Index(fn, "("); i > 0 && strings.HasSuffix(fn, ")") && !strings.HasPrefix(fn, "(") {
					// drop the argument list "f(...)" but keep receivers "pkg.(*T).m"
					if j := strings.LastIndex(fn, "("); j > 0 && !strings.HasPrefix(fn[j:], "(*") {
						fn = fn[:j]
					}
				}
				cur = append(cur, fn)
			}
		}
		if in {
			stacks = append(stacks, cur)
		}
		var names []string
		for _, st := range stacks {
			inner, outer := "", ""
			for _, fn := range st {
				if strings.HasPrefix(fn, "gorgonia.org/tensor") {
					short := strings.TrimPrefix(strings.TrimPrefix(fn, "gorgonia.org/tensor/"), "gorgonia.org/tensor.")
					if inner == "" {
						inner = short
					}
					outer = short
				}
			}
			if inner != "" {
				names = append(names, outer+">"+inner)
			}
		}
		head := strings.TrimSpace(blk)
		if len(head) > 1800 {
			head = head[:1800]
		}
		if len(names) == 0 {
			out = append(out, raceReport{"", head})
			continue
		}
		sort.Strings(names)
		out = append(out, raceReport{Sig(append([]string{"race"}, names...)...), head})
	}
	return out
}
