package gen

import (
	"fmt"
	"math/rand"
	"reflect"

	"gorgonia.org/tensor"
	"verifharness/core"
	"verifharness/model"
)

// Layout classes (DESIGN §2.4).
const (
	LC     = "C"     // contiguous row-major over harness-owned backing
	LF     = "F"     // declared column-major over raw (column-major) backing
	LFconv = "Fconv" // converting column-major constructor given a row-major sequence
	LT     = "T"     // lazy transpose of a contiguous base
	LS     = "S"     // unit-step slice of a larger parent
	LSS    = "SS"    // stepped slice of a larger parent
	LMT    = "MT"    // Materialize() of a T operand
	LMS    = "MS"    // Materialize() of an S operand
	LMSS   = "MSS"   // Materialize() of an SS operand
	LST    = "ST"    // slice of a lazy transpose
	LTS    = "TS"    // lazy transpose of a slice
	LFT    = "FT"    // lazy transpose of a column-major base
	LFS    = "FS"    // unit-step slice of a larger column-major parent
	LFSS   = "FSS"   // stepped slice of a larger column-major parent
	LTT    = "TT"    // two stacked lazy transposes (the second one has to move the data of the first)
	LTF    = "TF"    // Slice() with no (or only full-range) arguments of a lazily transposed tensor: a view of all of it
	LCSS   = "CSS"   // Clone() of a stepped slice: owns its storage but keeps the view's strides and storage window
	LSSR   = "SSR"   // one entry cut (by a range) out of a slice that steps over a leading axis: default strides, but the storage window runs on past the next selected entry
	LSSS   = "SSS"   // unit-step slice of a stepped slice: its storage window is longer than its elements need (ends at the next selected element)
)

// ColViewLayouts are the views over column-major storage (C16).
var ColViewLayouts = []string{LFT, LFS, LFSS}

var AllLayouts = []string{LC, LF, LFconv, LT, LS, LSS, LMT, LMS, LMSS, LST, LTS, LCSS, LTT, LTF, LSSR}

// RowLayouts are the C06 operand layouts {contiguous, lazily transposed, sliced, step-sliced, materialised} and what
// programs compose from them: a slice of a transpose, a transpose of a slice, the clone of a stepped slice (which owns its
// storage but keeps the strides and the gaps), two stacked rotations, the whole-slice view of a transposed tensor.
var RowLayouts = []string{LC, LT, LS, LSS, LMS, LST, LTS, LCSS, LTT, LTF}

// ElemLayouts are the operand layouts of the elementwise matrices: RowLayouts plus the slice of a stepped slice.
var ElemLayouts = []string{LC, LT, LS, LSS, LMS, LSSS, LST, LTS, LCSS, LTT, LTF, LSSR}

// Operand is a tensor built from a model array in a given layout, together
// with everything the monitors need to observe raw memory.
type Operand struct {
	D       *tensor.Dense
	M       *model.ND
	Layout  string // the layout actually built (may degrade to C for shapes that do not admit the requested one)
	Asked   string
	Recipe  map[string]interface{}
	Root    *tensor.Dense
	Backing interface{}    // typed slice: the root storage
	Off     []int          // Off[r] = index in Backing of the logical element of row-major rank r
	Eng     tensor.Engine  // engine attached to the root tensor (nil: the default engine)
	specs   []tensor.Slice // S/SS layouts: the slices that cut D out of Root (so that the view can be cut again from a masked parent)
	keep    []*tensor.Dense
}

func dt(t reflect.Type) tensor.Dtype { return tensor.Dtype{Type: t} }

// Dtype converts a model type to the library's Dtype.
func Dtype(t reflect.Type) tensor.Dtype { return dt(t) }

func (op *Operand) newC(t reflect.Type, shape []int, vals []interface{}) (*tensor.Dense, interface{}) {
	b := model.MakeSlice(t, vals)
	opts := []tensor.ConsOpt{tensor.WithShape(shape...), tensor.WithBacking(b)}
	if op.Eng != nil {
		opts = append(opts, tensor.WithEngine(op.Eng))
	}
	d := tensor.New(opts...)
	return d, b
}

// rs is a start:end:step range.
type rs struct{ s, e, st int }

func (r rs) Start() int { return r.s }
func (r rs) End() int   { return r.e }
func (r rs) Step() int  { return r.st }

func inv(p []int) []int {
	q := make([]int, len(p))
	for i, x := range p {
		q[x] = i
	}
	return q
}

func nonUnitAxes(shape []int) []int {
	var out []int
	for i, d := range shape {
		if d > 1 {
			out = append(out, i)
		}
	}
	return out
}

// pickPerm picks a non-identity permutation (the reversal for rank 2).
func pickPerm(rank int, rng *rand.Rand) []int {
	if rank < 2 {
		return nil
	}
	if rank == 2 {
		return []int{1, 0}
	}
	for {
		p := rng.Perm(rank)
		if !model.IsIdentity(p) {
			return p
		}
	}
}

type margins struct{ lo, hi, step []int }

func pickMargins(shape []int, stepped bool, rng *rand.Rand) (margins, bool) {
	n := len(shape)
	m := margins{make([]int, n), make([]int, n), make([]int, n)}
	nu := nonUnitAxes(shape)
	if len(nu) == 0 {
		return m, false
	}
	for i := range m.step {
		m.step[i] = 1
	}
	any := false
	for _, i := range nu {
		m.lo[i] = rng.Intn(3)
		m.hi[i] = rng.Intn(3)
		if stepped {
			m.step[i] = 1 + rng.Intn(3)
		}
		if m.lo[i]+m.hi[i] > 0 {
			any = true
		}
	}
	if !any {
		i := nu[rng.Intn(len(nu))]
		m.lo[i] = 1
	}
	if stepped {
		has := false
		for _, i := range nu {
			if m.step[i] > 1 {
				has = true
			}
		}
		if !has {
			i := nu[rng.Intn(len(nu))]
			m.step[i] = 2 + rng.Intn(2)
		}
	}
	return m, true
}

// parentOf lays the model array m into a larger parent according to mg and
// returns the parent's row-major values, shape, the slice list selecting m, and
// for each logical rank of m the row-major rank in the parent.
func parentOf(m *model.ND, mg margins, salt int64) (pshape []int, pvals []interface{}, specs []tensor.Slice, mspecs []model.SliceSpec, off []int) {
	n := len(m.Shape)
	pshape = make([]int, n)
	for i, d := range m.Shape {
		if d == 1 && mg.lo[i] == 0 && mg.hi[i] == 0 && mg.step[i] == 1 {
			pshape[i] = 1
		} else {
			pshape[i] = mg.lo[i] + d*mg.step[i] + mg.hi[i]
		}
	}
	pvals = Canary(m.T, model.Size(pshape), salt)
	off = make([]int, len(m.V))
	pc := make([]int, n)
	model.Each(m.Shape, func(c []int, r int) {
		for i := range c {
			pc[i] = mg.lo[i] + c[i]*mg.step[i]
		}
		pr := model.Rank(pshape, pc)
		pvals[pr] = m.V[r]
		off[r] = pr
	})
	specs = make([]tensor.Slice, n)
	mspecs = make([]model.SliceSpec, n)
	for i, d := range m.Shape {
		if pshape[i] == d && mg.step[i] == 1 {
			specs[i] = nil
			mspecs[i] = model.SliceSpec{Nil: true}
		} else {
			specs[i] = tensor.S(mg.lo[i], mg.lo[i]+d*mg.step[i], mg.step[i])
			mspecs[i] = model.SliceSpec{Start: mg.lo[i], End: mg.lo[i] + d*mg.step[i], Step: mg.step[i]}
		}
	}
	return
}

func specStrings(ms []model.SliceSpec) []string {
	out := make([]string, len(ms))
	for i, s := range ms {
		out[i] = s.String()
	}
	return out
}

// Build constructs an operand with logical content m in the requested layout.
// A library panic/error while building is reported as an error (the caller
// counts the case inconclusive: operand-precondition).
func Build(m *model.ND, layout string, rng *rand.Rand) (op *Operand, err error) {
	return BuildWith(m, layout, rng, nil)
}

// BuildWith is Build with an execution engine attached to the root tensor (views and copies inherit it).
func BuildWith(m *model.ND, layout string, rng *rand.Rand, eng tensor.Engine) (op *Operand, err error) {
	op = &Operand{M: m, Asked: layout, Layout: layout, Recipe: map[string]interface{}{}, Eng: eng}
	p, msg := core.Catch(func() { err = op.build(m, layout, rng) })
	if p {
		return nil, fmt.Errorf("panic while building %s operand of shape %v: %s", layout, m.Shape, msg)
	}
	if err != nil {
		return nil, err
	}
	op.Recipe["layout"] = op.Layout
	op.Recipe["shape"] = m.Shape
	op.Recipe["dtype"] = model.Name(m.T)
	if OnTensor != nil && op.D != nil {
		OnTensor(op.D, "operand:"+op.Layout)
	}
	return op, nil
}

func (op *Operand) consOpts(o ...tensor.ConsOpt) []tensor.ConsOpt {
	if op.Eng != nil {
		o = append(o, tensor.WithEngine(op.Eng))
	}
	return o
}

// AttachMask attaches a mask given per logical position. Only for operands that own their whole
// storage (the library's masks are indexed by storage offset and must have the storage's length).
func (op *Operand) AttachMask(logical []bool) error {
	if op.D != op.Root {
		// a view: the parent gets the mask (the view's elements as asked, the rest unmasked) and the view is cut again,
		// which is how a masked view comes about in a program
		if op.specs == nil {
			return fmt.Errorf("mask can only be attached to a tensor owning its storage or to a plain slice")
		}
		mask := make([]bool, op.BackingLen())
		for r, o := range op.Off {
			mask[o] = logical[r]
		}
		op.Root.MaskFromSlice(mask)
		v, err := op.Root.Slice(op.specs...)
		if err != nil {
			return err
		}
		vd, ok := v.(*tensor.Dense)
		if !ok || !vd.IsMasked() {
			return fmt.Errorf("mask not attached")
		}
		op.D = vd
		op.M = op.M.Clone()
		op.M.Mask = append([]bool(nil), logical...)
		return nil
	}
	if op.BackingLen() != len(op.Off) {
		return fmt.Errorf("mask can only be attached to a tensor owning its storage")
	}
	mask := make([]bool, op.BackingLen())
	for r, o := range op.Off {
		mask[o] = logical[r]
	}
	op.D.MaskFromSlice(mask)
	if !op.D.IsMasked() {
		return fmt.Errorf("mask not attached")
	}
	op.M = op.M.Clone()
	op.M.Mask = append([]bool(nil), logical...)
	return nil
}

func (op *Operand) identityOff() {
	op.Off = make([]int, len(op.M.V))
	for i := range op.Off {
		op.Off[i] = i
	}
}

func (op *Operand) build(m *model.ND, layout string, rng *rand.Rand) error {
	rank := len(m.Shape)
	t := m.T
	degrade := func() error {
		op.Layout = LC
		return op.build(m, LC, rng)
	}
	switch layout {
	case LC:
		var d *tensor.Dense
		if rank == 0 {
			b := model.MakeSlice(t, m.V)
			d = tensor.New(op.consOpts(tensor.WithShape(), tensor.WithBacking(b))...)
			op.Backing = b
		} else {
			d, op.Backing = op.newC(t, m.Shape, m.V)
		}
		op.D, op.Root = d, d
		op.identityOff()
	case LF:
		if rank < 1 { // (a vector constructed column-major has the same storage as a row-major one, but carries the flag)
			return degrade()
		}
		b := model.MakeSlice(t, model.ColMajorSeq(m))
		d := tensor.New(op.consOpts(tensor.WithShape(m.Shape...), tensor.AsFortran(nil), tensor.WithBacking(b))...)
		op.D, op.Root, op.Backing = d, d, b
		op.Off = make([]int, len(m.V))
		model.Each(m.Shape, func(c []int, r int) { op.Off[r] = model.RankCol(m.Shape, c) })
	case LFconv:
		if rank < 1 {
			return degrade()
		}
		b := model.MakeSlice(t, m.V)
		d := tensor.New(op.consOpts(tensor.WithShape(m.Shape...), tensor.AsFortran(b))...)
		op.D, op.Root, op.Backing = d, d, b
		op.Off = make([]int, len(m.V))
		model.Each(m.Shape, func(c []int, r int) { op.Off[r] = model.RankCol(m.Shape, c) })
	case LT:
		if rank < 2 || len(m.V) < 2 {
			return degrade()
		}
		p := pickPerm(rank, rng)
		base := model.Permute(m, inv(p))
		d, b := op.newC(t, base.Shape, base.V)
		if err := d.T(p...); err != nil {
			return err
		}
		op.D, op.Root, op.Backing = d, d, b
		op.Recipe["perm"] = p
		op.Off = make([]int, len(m.V))
		bc := make([]int, rank)
		model.Each(m.Shape, func(c []int, r int) {
			for i := range p {
				bc[p[i]] = c[i]
			}
			op.Off[r] = model.Rank(base.Shape, bc)
		})
	case LFT:
		if rank < 2 || len(m.V) < 2 {
			return degrade()
		}
		p := pickPerm(rank, rng)
		base := model.Permute(m, inv(p))
		b := model.MakeSlice(t, model.ColMajorSeq(base))
		d := tensor.New(op.consOpts(tensor.WithShape(base.Shape...), tensor.AsFortran(nil), tensor.WithBacking(b))...)
		if err := d.T(p...); err != nil {
			return err
		}
		op.D, op.Root, op.Backing = d, d, b
		op.Recipe["perm"] = p
		op.Off = make([]int, len(m.V))
		bc := make([]int, rank)
		model.Each(m.Shape, func(c []int, r int) {
			for i := range p {
				bc[p[i]] = c[i]
			}
			op.Off[r] = model.RankCol(base.Shape, bc)
		})
	case LFS, LFSS:
		if rank < 2 || len(m.V) < 2 {
			return degrade()
		}
		mg, ok := pickMargins(m.Shape, layout == LFSS, rng)
		if !ok {
			return degrade()
		}
		pshape, pvals, specs, mspecs, off := parentOf(m, mg, rng.Int63())
		pm := model.New(t, pshape, pvals)
		b := model.MakeSlice(t, model.ColMajorSeq(pm))
		parent := tensor.New(op.consOpts(tensor.WithShape(pshape...), tensor.AsFortran(nil), tensor.WithBacking(b))...)
		v, err := parent.Slice(specs...)
		if err != nil {
			return err
		}
		op.D, op.Root, op.Backing = v.(*tensor.Dense), parent, b
		op.keep = append(op.keep, parent)
		op.Recipe["parent"] = pshape
		op.Recipe["slices"] = specStrings(mspecs)
		op.Off = make([]int, len(off))
		for r := range off {
			op.Off[r] = model.RankCol(pshape, model.Unrank(pshape, off[r]))
		}
	case LS, LSS:
		if rank < 1 || len(m.V) < 2 {
			return degrade()
		}
		mg, ok := pickMargins(m.Shape, layout == LSS, rng)
		if !ok {
			return degrade()
		}
		pshape, pvals, specs, mspecs, off := parentOf(m, mg, rng.Int63())
		parent, b := op.newC(t, pshape, pvals)
		v, err := parent.Slice(specs...)
		if err != nil {
			return err
		}
		op.D, op.Root, op.Backing, op.Off = v.(*tensor.Dense), parent, b, off
		op.specs = specs
		op.keep = append(op.keep, parent)
		op.Recipe["parent"] = pshape
		op.Recipe["slices"] = specStrings(mspecs)
	case LTT:
		if rank < 3 || len(m.V) < 2 {
			return degrade()
		}
		// base --T(p1)--> --T(p2)--> m, with p1 a rotation (not an involution) and p2 = p1: the library has to compose them
		p1 := make([]int, rank)
		for i := range p1 {
			p1[i] = (i + 1) % rank
		}
		mid := model.Permute(m, inv(p1))
		base := model.Permute(mid, inv(p1))
		d, b := op.newC(t, base.Shape, base.V)
		if err := d.T(p1...); err != nil {
			return err
		}
		if err := d.T(p1...); err != nil {
			return err
		}
		op.D, op.Root = d, d
		// the second transpose moved the data: the storage is whatever the library made of it, so the backing is the tensor's own
		op.Backing = b
		if !ShapeEq([]int(d.Shape()), m.Shape) {
			return fmt.Errorf("stacked transpose produced shape %v, want %v", d.Shape(), m.Shape)
		}
		op.Recipe["perm"] = p1
		op.Recipe["twice"] = true
		// offsets: read them off the library's strides is not independent; locate each logical element in the backing by value
		// (values of the operand factories are pairwise distinct ramps where this layout is used)
		op.Off = make([]int, len(m.V))
		pos := map[interface{}]int{}
		for i, v := range model.FromSlice(b) {
			if _, dup := pos[v]; dup {
				return degrade()
			}
			pos[v] = i
		}
		for r, v := range m.V {
			o, ok := pos[v]
			if !ok {
				return degrade()
			}
			op.Off[r] = o
		}
	case LTF:
		src, err := BuildWith(m, LT, rng, op.Eng)
		if err != nil {
			return err
		}
		if src.Layout != LT {
			return degrade()
		}
		v, err := src.D.Slice()
		if err != nil {
			return err
		}
		vd, ok := v.(*tensor.Dense)
		if !ok || !ShapeEq([]int(vd.Shape()), m.Shape) {
			return degrade()
		}
		op.D, op.Root, op.Backing, op.Off = vd, src.Root, src.Backing, src.Off
		op.keep = append(op.keep, src.D)
		op.Recipe["of"] = src.Recipe
	case LCSS:
		src, err := BuildWith(m, LSS, rng, op.Eng)
		if err != nil {
			return err
		}
		if src.Layout != LSS {
			return degrade()
		}
		cl, ok := src.D.Clone().(*tensor.Dense)
		if !ok {
			return fmt.Errorf("Clone did not return *Dense")
		}
		es := int(m.T.Size())
		if es == 0 || !ShapeEq([]int(cl.Strides()), []int(src.D.Strides())) {
			return degrade() // the clone was compacted: it is a plain contiguous tensor, not the layout asked for
		}
		ws := int(src.D.Uintptr()-src.Root.Uintptr()) / es
		op.D, op.Root = cl, cl
		op.Backing = cl.Data()
		op.keep = append(op.keep, src.D, src.Root)
		op.Recipe["of"] = src.Recipe
		op.Off = make([]int, len(src.Off))
		for r, o := range src.Off {
			op.Off[r] = o - ws
		}
		if reflect.ValueOf(op.Backing).Kind() != reflect.Slice {
			return degrade()
		}
	case LSSR:
		// m is the second selected row of parent(4, m.Shape...)[0:4:2]: parent rows 0 and 2 are selected, the view is row 2, cut
		// with the range [1:2] (the library drops the axis of a one-entry range); its strides are the default ones, its storage
		// window reaches to the end of the parent
		if rank < 1 || len(m.V) < 2 {
			return degrade()
		}
		pshape := append([]int{4}, m.Shape...)
		rowLen := len(m.V)
		pv := make([]interface{}, 0, 4*rowLen)
		for r := 0; r < 4; r++ {
			for k := 0; k < rowLen; k++ {
				if r == 2 {
					pv = append(pv, m.V[k])
				} else {
					pv = append(pv, Canary(t, 1, int64(100+r*rowLen+k))[0])
				}
			}
		}
		parent, b := op.newC(t, pshape, pv)
		v5, err := parent.Slice(rs{0, 4, 2})
		if err != nil {
			return err
		}
		v6, err := v5.Slice(rs{1, 2, 1})
		if err != nil {
			return err
		}
		vd, ok := v6.(*tensor.Dense)
		if !ok || !ShapeEq([]int(vd.Shape()), m.Shape) {
			return degrade()
		}
		op.D, op.Root, op.Backing = vd, parent, b
		op.Off = make([]int, rowLen)
		for k := range op.Off {
			op.Off[k] = 2*rowLen + k
		}
		op.keep = append(op.keep, parent, v5.(*tensor.Dense))
		op.Recipe["of"] = "p(4,shape...)[0:4:2][1:2]"
	case LSSS:
		// m extended by one more entry along its last axis is built as a stepped slice; m is then cut out of it
		if rank < 1 || len(m.V) < 1 {
			return degrade()
		}
		if rank == 1 && m.Shape[0] == 1 {
			// the one-element case: p(1,4)[:,0:4:2][:,1:2] is a view of shape (1) whose window reaches to the end of p
			z := model.Zero(t)
			parent, b := op.newC(t, []int{1, 4}, []interface{}{z, z, m.V[0], z})
			v5, err := parent.Slice(nil, rs{0, 4, 2})
			if err != nil {
				return err
			}
			v6, err := v5.Slice(nil, rs{1, 2, 1})
			if err != nil {
				return err
			}
			vd, ok := v6.(*tensor.Dense)
			if !ok || !ShapeEq([]int(vd.Shape()), m.Shape) {
				return degrade()
			}
			op.D, op.Root, op.Backing, op.Off = vd, parent, b, []int{2}
			op.keep = append(op.keep, parent, v5.(*tensor.Dense))
			op.Recipe["of"] = "p(1,4)[:,0:4:2][:,1:2]"
			return nil
		}
		eshape := model.CopyInts(m.Shape)
		last := rank - 1
		eshape[last]++
		ev := make([]interface{}, 0, model.Size(eshape))
		model.Each(eshape, func(c []int, r int) {
			if c[last] < m.Shape[last] {
				ev = append(ev, m.V[model.Rank(m.Shape, c)])
			} else {
				ev = append(ev, model.Zero(t))
			}
		})
		src, err := BuildWith(model.New(t, eshape, ev), LSS, rng, op.Eng)
		if err != nil {
			return err
		}
		if src.Layout != LSS {
			return degrade()
		}
		specs := make([]tensor.Slice, rank)
		specs[last] = rs{0, m.Shape[last], 1}
		v, err := src.D.Slice(specs...)
		if err != nil {
			return err
		}
		vd, ok := v.(*tensor.Dense)
		if !ok || !ShapeEq([]int(vd.Shape()), m.Shape) {
			return degrade() // the library squeezed the result differently: not the layout asked for
		}
		op.D, op.Root, op.Backing = vd, src.Root, src.Backing
		op.keep = append(op.keep, src.D, src.Root)
		op.Recipe["of"] = src.Recipe
		op.Off = make([]int, len(m.V))
		model.Each(m.Shape, func(c []int, r int) { op.Off[r] = src.Off[model.Rank(eshape, c)] })
	case LMT, LMS, LMSS:
		inner := map[string]string{LMT: LT, LMS: LS, LMSS: LSS}[layout]
		src, err := BuildWith(m, inner, rng, op.Eng)
		if err != nil {
			return err
		}
		if src.Layout != inner {
			return degrade()
		}
		mat, ok := src.D.Materialize().(*tensor.Dense)
		if !ok {
			return fmt.Errorf("Materialize did not return *Dense")
		}
		op.D, op.Root = mat, mat
		op.Backing = mat.Data()
		op.keep = append(op.keep, src.D, src.Root)
		op.Recipe["of"] = src.Recipe
		op.identityOff()
	case LST:
		// base --T(p)--> transposed parent --Slice--> m
		if rank < 2 || len(m.V) < 2 {
			return degrade()
		}
		mg, ok := pickMargins(m.Shape, false, rng)
		if !ok {
			return degrade()
		}
		p := pickPerm(rank, rng)
		pshape, pvals, specs, mspecs, off := parentOf(m, mg, rng.Int63())
		tparent := model.New(t, pshape, pvals)
		base := model.Permute(tparent, inv(p))
		d, b := op.newC(t, base.Shape, base.V)
		if err := d.T(p...); err != nil {
			return err
		}
		v, err := d.Slice(specs...)
		if err != nil {
			return err
		}
		op.D, op.Root, op.Backing = v.(*tensor.Dense), d, b
		op.keep = append(op.keep, d)
		op.Recipe["perm"] = p
		op.Recipe["parent"] = base.Shape
		op.Recipe["slices"] = specStrings(mspecs)
		op.Off = make([]int, len(m.V))
		bc := make([]int, rank)
		for r := range op.Off {
			pc := model.Unrank(pshape, off[r])
			for i := range p {
				bc[p[i]] = pc[i]
			}
			op.Off[r] = model.Rank(base.Shape, bc)
		}
	case LTS:
		// parent --Slice--> s --T(p)--> m
		if rank < 2 || len(m.V) < 2 {
			return degrade()
		}
		p := pickPerm(rank, rng)
		s := model.Permute(m, inv(p))
		mg, ok := pickMargins(s.Shape, false, rng)
		if !ok {
			return degrade()
		}
		pshape, pvals, specs, mspecs, off := parentOf(s, mg, rng.Int63())
		parent, b := op.newC(t, pshape, pvals)
		v, err := parent.Slice(specs...)
		if err != nil {
			return err
		}
		vd := v.(*tensor.Dense)
		if err := vd.T(p...); err != nil {
			return err
		}
		op.D, op.Root, op.Backing = vd, parent, b
		op.keep = append(op.keep, parent)
		op.Recipe["perm"] = p
		op.Recipe["parent"] = pshape
		op.Recipe["slices"] = specStrings(mspecs)
		op.Off = make([]int, len(m.V))
		sc := make([]int, rank)
		model.Each(m.Shape, func(c []int, r int) {
			for i := range p {
				sc[p[i]] = c[i]
			}
			op.Off[r] = off[model.Rank(s.Shape, sc)]
		})
	default:
		return fmt.Errorf("unknown layout %q", layout)
	}
	return nil
}

// BackingLen is the number of elements of the root storage.
func (op *Operand) BackingLen() int { return reflect.ValueOf(op.Backing).Len() }

// BackingAt reads the root storage directly (not through the library).
func (op *Operand) BackingAt(i int) interface{} {
	return reflect.ValueOf(op.Backing).Index(i).Interface()
}

// Validate checks the operand in two independent ways: an At sweep must return
// the model, and the harness' own offsets must locate the same values in the
// root storage.
func (op *Operand) Validate() error {
	if err := ReadMatches(op.D, op.M); err != nil {
		return err
	}
	for r, o := range op.Off {
		if o < 0 || o >= op.BackingLen() {
			return fmt.Errorf("offset %d of rank %d outside backing", o, r)
		}
		if !model.Same(op.BackingAt(o), op.M.V[r]) {
			return fmt.Errorf("backing[%d]=%v but model rank %d is %v", o, op.BackingAt(o), r, op.M.V[r])
		}
	}
	return nil
}

// Snap copies the root storage.
func (op *Operand) Snap() interface{} { return model.CloneSlice(op.Backing) }

// Changed lists the root-storage positions that differ from the snapshot.
func (op *Operand) Changed(snap interface{}) []int {
	a, b := reflect.ValueOf(snap), reflect.ValueOf(op.Backing)
	var out []int
	for i := 0; i < a.Len(); i++ {
		if !model.Same(a.Index(i).Interface(), b.Index(i).Interface()) {
			out = append(out, i)
		}
	}
	return out
}

// OutsideChanged lists changed positions that do not belong to the operand's element set.
func (op *Operand) OutsideChanged(snap interface{}) []int {
	in := make(map[int]bool, len(op.Off))
	for _, o := range op.Off {
		in[o] = true
	}
	var out []int
	for _, i := range op.Changed(snap) {
		if !in[i] {
			out = append(out, i)
		}
	}
	return out
}

// Current reads the operand's logical content from raw storage via the harness' offsets.
func (op *Operand) Current() *model.ND {
	v := make([]interface{}, len(op.Off))
	for r, o := range op.Off {
		v[r] = op.BackingAt(o)
	}
	return &model.ND{T: op.M.T, Shape: model.CopyInts(op.M.Shape), V: v}
}

// ReadAll reads every element of d through At in row-major coordinate order.
// OnTensor, when set, is shown every operand the factory builds and every tensor a check reads back (C13 evaluates
// the metadata invariant there while it replays the other checks' workloads).
var OnTensor func(d *tensor.Dense, role string)

func ReadAll(d tensor.Tensor) (m *model.ND, err error) {
	if OnTensor != nil {
		if dd, ok := d.(*tensor.Dense); ok && dd != nil {
			OnTensor(dd, "result")
		}
	}
	shape := model.CopyInts([]int(d.Shape()))
	if d.Shape().IsScalar() {
		shape = []int{}
	}
	n := model.Size(shape)
	v := make([]interface{}, n)
	p, msg := core.Catch(func() {
		model.Each(shape, func(c []int, r int) {
			if err != nil {
				return
			}
			var x interface{}
			x, err = d.At(c...)
			v[r] = x
		})
	})
	if p {
		return nil, fmt.Errorf("panic reading tensor of shape %v: %s", shape, msg)
	}
	if err != nil {
		return nil, err
	}
	return &model.ND{T: d.Dtype().Type, Shape: shape, V: v}, nil
}

// ReadMatches compares a tensor, read through At, with a model array (exact identity of elements).
func ReadMatches(d tensor.Tensor, m *model.ND) error {
	return ReadMatchesBy(d, m, model.Same)
}

func ShapeEq(a, b []int) bool {
	if len(a) != len(b) {
		return false
	}
	for i := range a {
		if a[i] != b[i] {
			return false
		}
	}
	return true
}

// ReadMatchesBy compares with a caller-chosen element equality.
func ReadMatchesBy(d tensor.Tensor, m *model.ND, eq func(a, b interface{}) bool) error {
	if d.Dtype().Type != m.T {
		return fmt.Errorf("dtype %v, want %v", d.Dtype(), model.Name(m.T))
	}
	got, err := ReadAll(d)
	if err != nil {
		return err
	}
	if !ShapeEq(got.Shape, m.Shape) {
		return fmt.Errorf("shape %v, want %v", got.Shape, m.Shape)
	}
	for r := range m.V {
		if !eq(got.V[r], m.V[r]) {
			return fmt.Errorf("element %v is %v, want %v", model.Unrank(m.Shape, r), got.V[r], m.V[r])
		}
	}
	return nil
}

// Meta is the observable metadata of a tensor.
type Meta struct {
	Shape    []int
	Strides  []int
	Order    tensor.DataOrder
	IsView   bool
	IsMat    bool
	Size     int
	DataSize int
	Masked   bool
	Mask     []bool
	Info     tensor.VerifInfo
	// Broken is set when the tensor could not even be inspected (an operation released or zeroed a tensor that was not
	// its to release): the library's own accessors panicked on it
	Broken string
}

func MetaOf(d *tensor.Dense) (m Meta) {
	defer func() {
		if r := recover(); r != nil {
			m = Meta{Broken: fmt.Sprint("tensor cannot be inspected: ", r)}
		}
	}()
	return metaOf(d)
}

func metaOf(d *tensor.Dense) Meta {
	m := Meta{Shape: model.CopyInts([]int(d.Shape())), Strides: model.CopyInts(d.Strides()), Order: d.DataOrder(), IsView: d.IsView(),
		IsMat: d.IsMaterializable(), Size: d.Size(), DataSize: d.DataSize(), Masked: d.IsMasked(), Info: tensor.VerifIntrospect(d)}
	if d.Mask() != nil {
		m.Mask = append([]bool(nil), d.Mask()...)
	}
	return m
}

// Diff describes the first difference between two metadata snapshots ("" if none).
// stridesEq compares strides on the axes where they take part in addressing (extent > 1).
func stridesEq(shape, a, b []int) bool {
	if len(a) != len(b) {
		return false
	}
	if len(shape) != len(a) {
		return ShapeEq(a, b)
	}
	for i := range a {
		if a[i] != b[i] && shape[i] != 1 {
			return false
		}
	}
	return true
}

func (a Meta) Diff(b Meta) string {
	switch {
	case a.Broken != b.Broken:
		return a.Broken + " -> " + b.Broken
	case !ShapeEq(a.Shape, b.Shape):
		return fmt.Sprintf("shape %v -> %v", a.Shape, b.Shape)
	case !stridesEq(a.Shape, a.Strides, b.Strides):
		return fmt.Sprintf("strides %v -> %v", a.Strides, b.Strides)
	case a.Order != b.Order:
		return fmt.Sprintf("order %v -> %v", a.Order, b.Order)
	case a.IsView != b.IsView:
		return "isview changed"
	case a.IsMat != b.IsMat:
		return "materializable changed"
	case a.Size != b.Size || a.DataSize != b.DataSize:
		return "size changed"
	case a.Masked != b.Masked || len(a.Mask) != len(b.Mask):
		return "mask presence changed"
	case a.Info.OldZero != b.Info.OldZero || !ShapeEq(a.Info.OldShape, b.Info.OldShape) || !ShapeEq(a.Info.OldStrides, b.Info.OldStrides):
		return "pending-transpose bookkeeping changed"
	case !ShapeEq(a.Info.TransposeWith, b.Info.TransposeWith):
		return fmt.Sprintf("transpose axes %v -> %v", a.Info.TransposeWith, b.Info.TransposeWith)
	}
	for i := range a.Mask {
		if a.Mask[i] != b.Mask[i] {
			return "mask changed"
		}
	}
	return ""
}
