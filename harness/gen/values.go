// Package gen builds the hostile inputs: element values per class and operands
// in every memory layout (with harness-owned backing so raw memory can be diffed).
package gen

import (
	"math"
	"math/rand"
	"reflect"

	"verifharness/model"
)

// Ramp returns n elements where element i encodes i+base (bool: a fixed
// pseudo-random bit pattern; small integer types wrap).
func Ramp(t reflect.Type, n int, base int64) []interface{} {
	out := make([]interface{}, n)
	for i := range out {
		x := int64(i) + base
		if t.Kind() == reflect.Bool {
			h := uint64(x) * 0x9E3779B97F4A7C15
			out[i] = (h>>33)&1 == 1
			continue
		}
		out[i] = model.FromInt(t, x)
	}
	return out
}

// SmallInts returns n random elements with integer values in [lo,hi]
// (unsigned types: clipped at 0; bool: random; string: random short strings).
func SmallInts(t reflect.Type, n int, rng *rand.Rand, lo, hi int64) []interface{} {
	out := make([]interface{}, n)
	for i := range out {
		x := lo + rng.Int63n(hi-lo+1)
		if !model.IsSigned(t) && !model.IsFloat(t) && !model.IsComplex(t) && x < 0 {
			x = -x
		}
		out[i] = model.FromInt(t, x)
	}
	return out
}

// Distinct returns n pairwise distinct elements (as far as the type has room)
// in a random order; values are small enough that sums/differences of two of
// them stay distinct: element = base + perm(i)*stride.
func Distinct(t reflect.Type, n int, rng *rand.Rand, base, stride int64) []interface{} {
	p := rng.Perm(n)
	out := make([]interface{}, n)
	for i := range out {
		x := base + int64(p[i])*stride
		if t.Kind() == reflect.Bool {
			out[i] = rng.Intn(2) == 1
			continue
		}
		if model.IsComplex(t) {
			if t.Kind() == reflect.Complex64 {
				out[i] = complex(float32(x), float32(p[i]%3-1))
			} else {
				out[i] = complex(float64(x), float64(p[i]%3-1))
			}
			continue
		}
		out[i] = model.FromInt(t, x)
	}
	return out
}

// Pool returns the hostile value pool of a class for type t.
//
//	"edge":   0, 1, -1, min, max, min+1, max-1 (overflow provoking)
//	"nonfin": NaN, +Inf, -Inf, -0, smallest/largest finite (floats; complex get components)
//	"zero":   zeros (zero divisors)
func Pool(t reflect.Type, class string) []interface{} {
	conv := func(xs ...float64) []interface{} {
		out := make([]interface{}, len(xs))
		for i, x := range xs {
			out[i] = model.FromFloat(t, x)
		}
		return out
	}
	switch class {
	case "zero":
		return []interface{}{model.Zero(t)}
	case "edge":
		switch t.Kind() {
		case reflect.Int8:
			return []interface{}{int8(0), int8(1), int8(-1), int8(math.MinInt8), int8(math.MaxInt8), int8(math.MinInt8 + 1), int8(2), int8(-3), int8(100)}
		case reflect.Int16:
			return []interface{}{int16(0), int16(1), int16(-1), int16(math.MinInt16), int16(math.MaxInt16), int16(math.MinInt16 + 1), int16(2), int16(-3), int16(30000)}
		case reflect.Int32:
			return []interface{}{int32(0), int32(1), int32(-1), int32(math.MinInt32), int32(math.MaxInt32), int32(math.MinInt32 + 1), int32(2), int32(-3), int32(2000000000)}
		case reflect.Int64:
			return []interface{}{int64(0), int64(1), int64(-1), int64(math.MinInt64), int64(math.MaxInt64), int64(math.MinInt64 + 1), int64(2), int64(-3), int64(1) << 62}
		case reflect.Int:
			return []interface{}{int(0), int(1), int(-1), int(math.MinInt64), int(math.MaxInt64), int(math.MinInt64 + 1), int(2), int(-3), int(1) << 62}
		case reflect.Uint8:
			return []interface{}{uint8(0), uint8(1), uint8(math.MaxUint8), uint8(math.MaxUint8 - 1), uint8(2), uint8(3), uint8(200), uint8(128)}
		case reflect.Uint16:
			return []interface{}{uint16(0), uint16(1), uint16(math.MaxUint16), uint16(math.MaxUint16 - 1), uint16(2), uint16(3), uint16(60000), uint16(1 << 15)}
		case reflect.Uint32:
			return []interface{}{uint32(0), uint32(1), uint32(math.MaxUint32), uint32(math.MaxUint32 - 1), uint32(2), uint32(3), uint32(4000000000), uint32(1 << 31)}
		case reflect.Uint64:
			return []interface{}{uint64(0), uint64(1), uint64(math.MaxUint64), uint64(math.MaxUint64 - 1), uint64(2), uint64(3), uint64(1) << 63}
		case reflect.Uint:
			return []interface{}{uint(0), uint(1), uint(math.MaxUint64), uint(math.MaxUint64 - 1), uint(2), uint(3), uint(1) << 63}
		case reflect.Float32:
			return conv(0, 1, -1, math.MaxFloat32, -math.MaxFloat32, math.SmallestNonzeroFloat32, 2, -3, 0.5, 1e30)
		case reflect.Float64:
			return conv(0, 1, -1, math.MaxFloat64, -math.MaxFloat64, math.SmallestNonzeroFloat64, 2, -3, 0.5, 1e300)
		case reflect.Complex64:
			return []interface{}{complex64(0), complex64(1), complex64(-1), complex64(complex(0, 1)), complex64(complex(2, -3)), complex64(complex(1e30, 1e30)), complex64(complex(0.5, 0.25))}
		case reflect.Complex128:
			return []interface{}{complex128(0), complex128(1), complex128(-1), complex(0, 1), complex(2, -3), complex(1e300, 1e300), complex(0.5, 0.25)}
		}
	case "nonfin":
		nz := math.Copysign(0, -1)
		switch t.Kind() {
		case reflect.Float32, reflect.Float64:
			return conv(math.NaN(), math.Inf(1), math.Inf(-1), nz, 0, 1, -1, 2.5)
		case reflect.Complex64:
			return []interface{}{complex64(complex(math.NaN(), 0)), complex64(complex(math.Inf(1), 0)), complex64(complex(0, math.Inf(-1))), complex64(complex(1, 2)), complex64(0)}
		case reflect.Complex128:
			return []interface{}{complex(math.NaN(), 0), complex(math.Inf(1), 0), complex(0, math.Inf(-1)), complex(1, 2), complex128(0)}
		}
	}
	return nil
}

// FromPool draws n elements from pool.
func FromPool(pool []interface{}, n int, rng *rand.Rand) []interface{} {
	out := make([]interface{}, n)
	for i := range out {
		out[i] = pool[rng.Intn(len(pool))]
	}
	return out
}

// Canary returns n filler elements that depend on (salt, position).
func Canary(t reflect.Type, n int, salt int64) []interface{} {
	out := make([]interface{}, n)
	for i := range out {
		h := (uint64(i)+1)*0x9E3779B97F4A7C15 ^ uint64(salt)*0xC2B2AE3D27D4EB4F
		h ^= h >> 29
		x := int64(h%89) + 33 // 33..121: representable in every numeric type, never 0
		if t.Kind() == reflect.Bool {
			out[i] = h&1 == 1
			continue
		}
		if t.Kind() == reflect.String {
			out[i] = "canary" + string(rune('a'+x%26))
			continue
		}
		out[i] = model.FromInt(t, x)
	}
	return out
}

// SmallGauss returns n elements with small integer real parts and, for complex types, small integer
// imaginary parts as well (so that conjugation or a dropped imaginary part shows).
func SmallGauss(t reflect.Type, n int, rng *rand.Rand, lo, hi int64) []interface{} {
	if !model.IsComplex(t) {
		return SmallInts(t, n, rng, lo, hi)
	}
	out := make([]interface{}, n)
	for i := range out {
		re := float64(lo + rng.Int63n(hi-lo+1))
		im := float64(lo + rng.Int63n(hi-lo+1))
		if im == 0 {
			im = 1
		}
		if t.Kind() == reflect.Complex64 {
			out[i] = complex(float32(re), float32(im))
		} else {
			out[i] = complex(re, im)
		}
	}
	return out
}
