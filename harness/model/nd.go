// Package model is the executable reference model ("shadow array") the monitors
// compare gorgonia/tensor against. It deliberately shares no code with the
// library: an array is an element type, a shape, and the row-major list of its
// elements as Go scalars (plus an optional mask in the same order).
package model

import (
	"fmt"
	"reflect"
)

type ND struct {
	T     reflect.Type
	Shape []int
	V     []interface{} // row-major logical order
	Mask  []bool        // nil, or one flag per element in the same order
}

func Size(shape []int) int {
	n := 1
	for _, d := range shape {
		n *= d
	}
	return n
}

func CopyInts(a []int) []int { return append([]int(nil), a...) }

func New(t reflect.Type, shape []int, v []interface{}) *ND {
	if len(v) != Size(shape) {
		panic(fmt.Sprintf("model.New: %d values for shape %v", len(v), shape))
	}
	return &ND{T: t, Shape: CopyInts(shape), V: v}
}

func (a *ND) Clone() *ND {
	b := &ND{T: a.T, Shape: CopyInts(a.Shape), V: append([]interface{}(nil), a.V...)}
	if a.Mask != nil {
		b.Mask = append([]bool(nil), a.Mask...)
	}
	return b
}

func (a *ND) Size() int { return len(a.V) }
func (a *ND) Dims() int { return len(a.Shape) }

// Rank is the row-major rank of coordinate c in shape.
func Rank(shape, c []int) int {
	r := 0
	for i, d := range shape {
		r = r*d + c[i]
	}
	return r
}

// RankCol is the column-major rank of coordinate c in shape.
func RankCol(shape, c []int) int {
	r := 0
	for i := len(shape) - 1; i >= 0; i-- {
		r = r*shape[i] + c[i]
	}
	return r
}

// Unrank is the inverse of Rank.
func Unrank(shape []int, r int) []int {
	c := make([]int, len(shape))
	for i := len(shape) - 1; i >= 0; i-- {
		if shape[i] > 0 {
			c[i] = r % shape[i]
			r /= shape[i]
		}
	}
	return c
}

// Each calls f for every coordinate of shape in row-major order.
func Each(shape []int, f func(c []int, r int)) {
	n := Size(shape)
	c := make([]int, len(shape))
	for r := 0; r < n; r++ {
		f(c, r)
		for i := len(shape) - 1; i >= 0; i-- {
			c[i]++
			if c[i] < shape[i] {
				break
			}
			c[i] = 0
		}
	}
}

func (a *ND) At(c ...int) interface{} { return a.V[Rank(a.Shape, c)] }

func InRange(shape, c []int) bool {
	if len(c) != len(shape) {
		return false
	}
	for i := range c {
		if c[i] < 0 || c[i] >= shape[i] {
			return false
		}
	}
	return true
}

// ---- slicing ----

// SliceSpec is one entry of a slice list. Nil means "whole axis". Single means
// a single index (the axis is dropped). Otherwise start:end:step.
type SliceSpec struct {
	Nil    bool
	Single bool
	Start  int
	End    int
	Step   int
}

func (s SliceSpec) String() string {
	switch {
	case s.Nil:
		return ":"
	case s.Single:
		return fmt.Sprintf("%d", s.Start)
	}
	return fmt.Sprintf("%d:%d:%d", s.Start, s.End, s.Step)
}

// SliceValid says whether spec is a valid request for an axis of length dim,
// by the statement of C02: reversed, negative, start past the axis and a zero
// step over more than one element are invalid. (An empty range start==end is
// outside the statement; callers do not generate it.)
func SliceValid(s SliceSpec, dim int) bool {
	if s.Nil {
		return true
	}
	if s.Single {
		return s.Start >= 0 && s.Start < dim
	}
	if s.Start < 0 || s.Start > s.End || s.Start >= dim {
		return false
	}
	if s.Step < 0 {
		return false
	}
	if s.Step == 0 && s.End-s.Start > 1 {
		return false
	}
	return true
}

// SliceResult is the model's answer for a slice request.
type SliceResult struct {
	Full     *ND    // result with every ranged axis kept (single-index axes dropped)
	MayDrop  []bool // per axis of Full: true if the axis was cut to length one by an explicit range (may be dropped)
	SrcCoord func(c []int) []int
}

// Slice applies specs (len(specs) <= rank) to a. Invalid specs must be
// filtered by the caller (SliceValid).
func Slice(a *ND, specs []SliceSpec) *SliceResult {
	rank := len(a.Shape)
	type ax struct {
		start, step, n int
		drop, may      bool
	}
	axs := make([]ax, rank)
	for i := 0; i < rank; i++ {
		s := SliceSpec{Nil: true}
		if i < len(specs) {
			s = specs[i]
		}
		switch {
		case s.Nil:
			axs[i] = ax{0, 1, a.Shape[i], false, false}
		case s.Single:
			axs[i] = ax{s.Start, 1, 1, true, false}
		default:
			end := s.End
			if end > a.Shape[i] {
				end = a.Shape[i]
			}
			step := s.Step
			n := 0
			if step == 0 {
				// a zero step over at most one element
				n = end - s.Start
				step = 1
			} else {
				n = (end - s.Start + step - 1) / step
			}
			axs[i] = ax{s.Start, step, n, false, n == 1}
		}
	}
	var shape []int
	var may []bool
	for _, x := range axs {
		if !x.drop {
			shape = append(shape, x.n)
			may = append(may, x.may)
		}
	}
	src := func(c []int) []int {
		out := make([]int, rank)
		j := 0
		for i, x := range axs {
			if x.drop {
				out[i] = x.start
			} else {
				out[i] = x.start + c[j]*x.step
				j++
			}
		}
		return out
	}
	n := Size(shape)
	v := make([]interface{}, n)
	var mask []bool
	if a.Mask != nil {
		mask = make([]bool, n)
	}
	Each(shape, func(c []int, r int) {
		sr := Rank(a.Shape, src(c))
		v[r] = a.V[sr]
		if mask != nil {
			mask[r] = a.Mask[sr]
		}
	})
	res := &ND{T: a.T, Shape: shape, V: v, Mask: mask}
	if shape == nil {
		res.Shape = []int{}
	}
	return &SliceResult{Full: res, MayDrop: may, SrcCoord: src}
}

// SqueezeMatch reports whether got can be obtained from full by dropping a
// subset of the axes flagged in may (all of which have length one), and if so
// returns for each axis of got the index of the corresponding axis of full.
func SqueezeMatch(full []int, may []bool, got []int) ([]int, bool) {
	// greedy matching with backtracking over droppable axes
	var rec func(i, j int, acc []int) ([]int, bool)
	rec = func(i, j int, acc []int) ([]int, bool) {
		if i == len(full) {
			if j == len(got) {
				return append([]int(nil), acc...), true
			}
			return nil, false
		}
		if j < len(got) && full[i] == got[j] {
			if r, ok := rec(i+1, j+1, append(acc, i)); ok {
				return r, true
			}
		}
		if may[i] && full[i] == 1 {
			if r, ok := rec(i+1, j, acc); ok {
				return r, true
			}
		}
		return nil, false
	}
	return rec(0, 0, nil)
}

// ---- permutation ----

// Permute returns the array b with b[c0..ck] = a[c'] where c'[p[i]] = c[i].
func Permute(a *ND, p []int) *ND {
	rank := len(a.Shape)
	shape := make([]int, rank)
	for i := range p {
		shape[i] = a.Shape[p[i]]
	}
	n := len(a.V)
	v := make([]interface{}, n)
	var mask []bool
	if a.Mask != nil {
		mask = make([]bool, n)
	}
	src := make([]int, rank)
	Each(shape, func(c []int, r int) {
		for i := range p {
			src[p[i]] = c[i]
		}
		sr := Rank(a.Shape, src)
		v[r] = a.V[sr]
		if mask != nil {
			mask[r] = a.Mask[sr]
		}
	})
	return &ND{T: a.T, Shape: shape, V: v, Mask: mask}
}

func IsPerm(p []int, rank int) bool {
	if len(p) != rank {
		return false
	}
	seen := make([]bool, rank)
	for _, x := range p {
		if x < 0 || x >= rank || seen[x] {
			return false
		}
		seen[x] = true
	}
	return true
}

func IsIdentity(p []int) bool {
	for i, x := range p {
		if x != i {
			return false
		}
	}
	return true
}

func Reversal(rank int) []int {
	p := make([]int, rank)
	for i := range p {
		p[i] = rank - 1 - i
	}
	return p
}

// Compose returns r with Permute(Permute(a,p),q) == Permute(a,r).
func Compose(p, q []int) []int {
	r := make([]int, len(p))
	for i := range q {
		r[i] = p[q[i]]
	}
	return r
}

// Perms enumerates all permutations of 0..n-1 in lexicographic order.
func Perms(n int) [][]int {
	var out [][]int
	p := make([]int, n)
	used := make([]bool, n)
	var rec func(i int)
	rec = func(i int) {
		if i == n {
			out = append(out, append([]int(nil), p...))
			return
		}
		for x := 0; x < n; x++ {
			if !used[x] {
				used[x] = true
				p[i] = x
				rec(i + 1)
				used[x] = false
			}
		}
	}
	rec(0)
	return out
}

// ---- assembling ----

// Concat is numpy.concatenate: all operands have the same rank and agree on
// every axis but `axis`. ok=false if they do not fit.
func Concat(axis int, as ...*ND) (*ND, bool) {
	if len(as) == 0 {
		return nil, false
	}
	rank := len(as[0].Shape)
	if axis < 0 || axis >= rank {
		return nil, false
	}
	shape := CopyInts(as[0].Shape)
	shape[axis] = 0
	for _, a := range as {
		if len(a.Shape) != rank || a.T != as[0].T {
			return nil, false
		}
		for i := range a.Shape {
			if i != axis && a.Shape[i] != as[0].Shape[i] {
				return nil, false
			}
		}
		shape[axis] += a.Shape[axis]
	}
	v := make([]interface{}, Size(shape))
	src := make([]int, rank)
	Each(shape, func(c []int, r int) {
		copy(src, c)
		k := c[axis]
		for _, a := range as {
			if k < a.Shape[axis] {
				src[axis] = k
				v[r] = a.V[Rank(a.Shape, src)]
				return
			}
			k -= a.Shape[axis]
		}
	})
	return &ND{T: as[0].T, Shape: shape, V: v}, true
}

// Stack is numpy.stack: all operands have identical shapes; a new axis of
// length len(as) is inserted at position axis (0..rank).
func Stack(axis int, as ...*ND) (*ND, bool) {
	if len(as) == 0 {
		return nil, false
	}
	rank := len(as[0].Shape)
	if axis < 0 || axis > rank {
		return nil, false
	}
	for _, a := range as {
		if len(a.Shape) != rank || a.T != as[0].T {
			return nil, false
		}
		for i := range a.Shape {
			if a.Shape[i] != as[0].Shape[i] {
				return nil, false
			}
		}
	}
	shape := make([]int, 0, rank+1)
	shape = append(shape, as[0].Shape[:axis]...)
	shape = append(shape, len(as))
	shape = append(shape, as[0].Shape[axis:]...)
	v := make([]interface{}, Size(shape))
	src := make([]int, rank)
	Each(shape, func(c []int, r int) {
		copy(src, c[:axis])
		copy(src[axis:], c[axis+1:])
		a := as[c[axis]]
		v[r] = a.V[Rank(a.Shape, src)]
	})
	return &ND{T: as[0].T, Shape: shape, V: v}, true
}

// Repeat is numpy.repeat(a, reps, axis): reps has length 1 (uniform) or
// shape[axis].
func Repeat(a *ND, axis int, reps []int) (*ND, bool) {
	rank := len(a.Shape)
	if axis < 0 || axis >= rank {
		return nil, false
	}
	n := a.Shape[axis]
	full := reps
	if len(reps) == 1 {
		full = make([]int, n)
		for i := range full {
			full[i] = reps[0]
		}
	}
	if len(full) != n {
		return nil, false
	}
	var idx []int
	for i, k := range full {
		if k < 0 {
			return nil, false
		}
		for j := 0; j < k; j++ {
			idx = append(idx, i)
		}
	}
	shape := CopyInts(a.Shape)
	shape[axis] = len(idx)
	v := make([]interface{}, Size(shape))
	src := make([]int, rank)
	Each(shape, func(c []int, r int) {
		copy(src, c)
		src[axis] = idx[c[axis]]
		v[r] = a.V[Rank(a.Shape, src)]
	})
	return &ND{T: a.T, Shape: shape, V: v}, true
}

// RepeatFlat is numpy.repeat(a, reps) with axis=None: flatten then repeat.
func RepeatFlat(a *ND, reps []int) (*ND, bool) {
	flat := &ND{T: a.T, Shape: []int{len(a.V)}, V: a.V}
	return Repeat(flat, 0, reps)
}

// ---- reductions ----

// Reduce folds a along the given (distinct, in-range) axes with f, starting
// from the first element along those axes. Result has the axes removed.
func Reduce(a *ND, axes []int, f func(acc, x interface{}) interface{}) *ND {
	rank := len(a.Shape)
	red := make([]bool, rank)
	for _, ax := range axes {
		red[ax] = true
	}
	var oshape []int
	for i, d := range a.Shape {
		if !red[i] {
			oshape = append(oshape, d)
		}
	}
	if oshape == nil {
		oshape = []int{}
	}
	out := make([]interface{}, Size(oshape))
	seen := make([]bool, len(out))
	oc := make([]int, len(oshape))
	Each(a.Shape, func(c []int, r int) {
		j := 0
		for i := range c {
			if !red[i] {
				oc[j] = c[i]
				j++
			}
		}
		or := Rank(oshape, oc)
		if !seen[or] {
			seen[or] = true
			out[or] = a.V[r]
		} else {
			out[or] = f(out[or], a.V[r])
		}
	})
	return &ND{T: a.T, Shape: oshape, V: out}
}

// ArgExt returns the first index of the extreme along axis (result has the axis
// removed), using better(x, best) to decide whether x replaces best.
func ArgExt(a *ND, axis int, better func(x, best interface{}) bool) *ND {
	rank := len(a.Shape)
	var oshape []int
	for i, d := range a.Shape {
		if i != axis {
			oshape = append(oshape, d)
		}
	}
	if oshape == nil {
		oshape = []int{}
	}
	n := Size(oshape)
	best := make([]interface{}, n)
	idx := make([]interface{}, n)
	seen := make([]bool, n)
	oc := make([]int, rank-1)
	Each(a.Shape, func(c []int, r int) {
		j := 0
		for i := range c {
			if i != axis {
				oc[j] = c[i]
				j++
			}
		}
		or := Rank(oshape, oc)
		if !seen[or] {
			seen[or] = true
			best[or] = a.V[r]
			idx[or] = c[axis]
		} else if better(a.V[r], best[or]) {
			best[or] = a.V[r]
			idx[or] = c[axis]
		}
	})
	return &ND{T: reflect.TypeOf(int(0)), Shape: oshape, V: idx}
}

// ArgExtAll returns the row-major logical index of the first extreme element.
func ArgExtAll(a *ND, better func(x, best interface{}) bool) int {
	bi := 0
	for i := 1; i < len(a.V); i++ {
		if better(a.V[i], a.V[bi]) {
			bi = i
		}
	}
	return bi
}

// Reshape keeps the row-major sequence.
func Reshape(a *ND, shape []int) *ND {
	return &ND{T: a.T, Shape: CopyInts(shape), V: a.V, Mask: a.Mask}
}

// ColMajorSeq returns the elements in column-major order of the logical coordinates.
func ColMajorSeq(a *ND) []interface{} {
	out := make([]interface{}, len(a.V))
	Each(a.Shape, func(c []int, r int) {
		out[RankCol(a.Shape, c)] = a.V[r]
	})
	return out
}

// FromColMajorSeq builds an array of the shape from a column-major sequence.
func FromColMajorSeq(t reflect.Type, shape []int, seq []interface{}) *ND {
	v := make([]interface{}, len(seq))
	Each(shape, func(c []int, r int) {
		v[r] = seq[RankCol(shape, c)]
	})
	return &ND{T: t, Shape: CopyInts(shape), V: v}
}
