package model

import (
	"fmt"
	"math"
	"math/cmplx"
	"reflect"

	"github.com/chewxy/math32"
)

var (
	TBool   = reflect.TypeOf(true)
	TInt    = reflect.TypeOf(int(0))
	TInt8   = reflect.TypeOf(int8(0))
	TInt16  = reflect.TypeOf(int16(0))
	TInt32  = reflect.TypeOf(int32(0))
	TInt64  = reflect.TypeOf(int64(0))
	TUint   = reflect.TypeOf(uint(0))
	TUint8  = reflect.TypeOf(uint8(0))
	TUint16 = reflect.TypeOf(uint16(0))
	TUint32 = reflect.TypeOf(uint32(0))
	TUint64 = reflect.TypeOf(uint64(0))
	TF32    = reflect.TypeOf(float32(0))
	TF64    = reflect.TypeOf(float64(0))
	TC64    = reflect.TypeOf(complex64(0))
	TC128   = reflect.TypeOf(complex128(0))
	TStr    = reflect.TypeOf("")
)

var AllTypes = []reflect.Type{TBool, TInt, TInt8, TInt16, TInt32, TInt64, TUint, TUint8, TUint16, TUint32, TUint64, TF32, TF64, TC64, TC128, TStr}
var NumTypes = []reflect.Type{TInt, TInt8, TInt16, TInt32, TInt64, TUint, TUint8, TUint16, TUint32, TUint64, TF32, TF64, TC64, TC128}
var RealTypes = []reflect.Type{TInt, TInt8, TInt16, TInt32, TInt64, TUint, TUint8, TUint16, TUint32, TUint64, TF32, TF64}
var IntTypes = []reflect.Type{TInt, TInt8, TInt16, TInt32, TInt64, TUint, TUint8, TUint16, TUint32, TUint64}
var SignedIntTypes = []reflect.Type{TInt, TInt8, TInt16, TInt32, TInt64}
var FloatTypes = []reflect.Type{TF32, TF64}
var FloatCmplxTypes = []reflect.Type{TF32, TF64, TC64, TC128}

// WidthTypes has one representative per element width 1,2,4,8,16 bytes plus strings.
var WidthTypes = []reflect.Type{TInt8, TInt16, TF32, TF64, TC128, TStr}

var names = map[reflect.Type]string{TBool: "B", TInt: "I", TInt8: "I8", TInt16: "I16", TInt32: "I32", TInt64: "I64", TUint: "U", TUint8: "U8",
	TUint16: "U16", TUint32: "U32", TUint64: "U64", TF32: "F32", TF64: "F64", TC64: "C64", TC128: "C128", TStr: "Str"}

func Name(t reflect.Type) string {
	if n, ok := names[t]; ok {
		return n
	}
	return t.String()
}

func IsInt(t reflect.Type) bool {
	switch t.Kind() {
	case reflect.Int, reflect.Int8, reflect.Int16, reflect.Int32, reflect.Int64, reflect.Uint, reflect.Uint8, reflect.Uint16, reflect.Uint32, reflect.Uint64:
		return true
	}
	return false
}
func IsSigned(t reflect.Type) bool {
	switch t.Kind() {
	case reflect.Int, reflect.Int8, reflect.Int16, reflect.Int32, reflect.Int64:
		return true
	}
	return false
}
func IsFloat(t reflect.Type) bool   { return t.Kind() == reflect.Float32 || t.Kind() == reflect.Float64 }
func IsComplex(t reflect.Type) bool { return t.Kind() == reflect.Complex64 || t.Kind() == reflect.Complex128 }
func IsNumber(t reflect.Type) bool  { return IsInt(t) || IsFloat(t) || IsComplex(t) }
func IsOrd(t reflect.Type) bool     { return IsInt(t) || IsFloat(t) || t.Kind() == reflect.String }

// In reports membership of t in set.
func In(t reflect.Type, set []reflect.Type) bool {
	for _, s := range set {
		if s == t {
			return true
		}
	}
	return false
}

// FromInt converts a small integer to an element of type t (bool: != 0; string: decimal).
func FromInt(t reflect.Type, x int64) interface{} {
	switch t.Kind() {
	case reflect.Bool:
		return x != 0
	case reflect.String:
		return fmt.Sprintf("s%d", x)
	case reflect.Complex64:
		return complex(float32(x), 0)
	case reflect.Complex128:
		return complex(float64(x), 0)
	}
	return reflect.ValueOf(x).Convert(t).Interface()
}

// FromFloat converts a float64 to type t (numeric types only).
func FromFloat(t reflect.Type, x float64) interface{} {
	switch t.Kind() {
	case reflect.Complex64:
		return complex(float32(x), 0)
	case reflect.Complex128:
		return complex(x, 0)
	}
	return reflect.ValueOf(x).Convert(t).Interface()
}

// ToFloat converts a real numeric element to float64.
func ToFloat(v interface{}) float64 {
	rv := reflect.ValueOf(v)
	switch rv.Kind() {
	case reflect.Int, reflect.Int8, reflect.Int16, reflect.Int32, reflect.Int64:
		return float64(rv.Int())
	case reflect.Uint, reflect.Uint8, reflect.Uint16, reflect.Uint32, reflect.Uint64:
		return float64(rv.Uint())
	case reflect.Float32, reflect.Float64:
		return rv.Float()
	case reflect.Bool:
		if rv.Bool() {
			return 1
		}
		return 0
	case reflect.Complex64, reflect.Complex128:
		return real(rv.Complex())
	}
	panic(fmt.Sprintf("ToFloat(%T)", v))
}

func ToComplex(v interface{}) complex128 {
	rv := reflect.ValueOf(v)
	switch rv.Kind() {
	case reflect.Complex64, reflect.Complex128:
		return rv.Complex()
	}
	return complex(ToFloat(v), 0)
}

// MakeSlice builds a typed Go slice []T from elements.
func MakeSlice(t reflect.Type, vals []interface{}) interface{} {
	s := reflect.MakeSlice(reflect.SliceOf(t), len(vals), len(vals))
	for i, v := range vals {
		s.Index(i).Set(reflect.ValueOf(v))
	}
	return s.Interface()
}

// FromSlice lists the elements of a typed slice.
func FromSlice(s interface{}) []interface{} {
	rv := reflect.ValueOf(s)
	if rv.Kind() != reflect.Slice {
		return []interface{}{s}
	}
	out := make([]interface{}, rv.Len())
	for i := range out {
		out[i] = rv.Index(i).Interface()
	}
	return out
}

// CloneSlice copies a typed slice.
func CloneSlice(s interface{}) interface{} {
	rv := reflect.ValueOf(s)
	c := reflect.MakeSlice(rv.Type(), rv.Len(), rv.Len())
	reflect.Copy(c, rv)
	return c.Interface()
}

func f32same(a, b float32) bool {
	return math.Float32bits(a) == math.Float32bits(b) || (a != a && b != b)
}
func f64same(a, b float64) bool {
	return math.Float64bits(a) == math.Float64bits(b) || (a != a && b != b)
}

// Same is identity of elements for moves and copies: NaN equals NaN, +0 differs from -0.
func Same(a, b interface{}) bool {
	switch x := a.(type) {
	case float32:
		y, ok := b.(float32)
		return ok && f32same(x, y)
	case float64:
		y, ok := b.(float64)
		return ok && f64same(x, y)
	case complex64:
		y, ok := b.(complex64)
		return ok && f32same(real(x), real(y)) && f32same(imag(x), imag(y))
	case complex128:
		y, ok := b.(complex128)
		return ok && f64same(real(x), real(y)) && f64same(imag(x), imag(y))
	}
	return a == b
}

func feq(a, b float64) bool { return a == b || (a != a && b != b) }

// Equal is equality of arithmetic results: NaN equals NaN, +0 equals -0.
func Equal(a, b interface{}) bool {
	switch x := a.(type) {
	case float32:
		y, ok := b.(float32)
		return ok && feq(float64(x), float64(y))
	case float64:
		y, ok := b.(float64)
		return ok && feq(x, y)
	case complex64:
		y, ok := b.(complex64)
		return ok && feq(float64(real(x)), float64(real(y))) && feq(float64(imag(x)), float64(imag(y)))
	case complex128:
		y, ok := b.(complex128)
		return ok && feq(real(x), real(y)) && feq(imag(x), imag(y))
	}
	return a == b
}

func ulpClose64(a, b float64, ulps int) bool {
	if feq(a, b) {
		return true
	}
	if math.IsNaN(a) || math.IsNaN(b) || math.IsInf(a, 0) || math.IsInf(b, 0) {
		return false
	}
	x := a
	for i := 0; i < ulps; i++ {
		x = math.Nextafter(x, b)
		if x == b {
			return true
		}
	}
	return false
}
func ulpClose32(a, b float32, ulps int) bool {
	if feq(float64(a), float64(b)) {
		return true
	}
	if a != a || b != b || math.IsInf(float64(a), 0) || math.IsInf(float64(b), 0) {
		return false
	}
	x := a
	for i := 0; i < ulps; i++ {
		x = math.Nextafter32(x, b)
		if x == b {
			return true
		}
	}
	return false
}

// Close is equality within a number of units in the last place (floats and
// complex component-wise); exact for everything else.
func Close(a, b interface{}, ulps int) bool {
	switch x := a.(type) {
	case float32:
		y, ok := b.(float32)
		return ok && ulpClose32(x, y, ulps)
	case float64:
		y, ok := b.(float64)
		return ok && ulpClose64(x, y, ulps)
	case complex64:
		y, ok := b.(complex64)
		return ok && ulpClose32(real(x), real(y), ulps) && ulpClose32(imag(x), imag(y), ulps)
	case complex128:
		y, ok := b.(complex128)
		return ok && ulpClose64(real(x), real(y), ulps) && ulpClose64(imag(x), imag(y), ulps)
	}
	return a == b
}

// RelClose is equality within a relative tolerance (for sums whose association
// order is not fixed by the statement).
func RelClose(a, b interface{}, rel float64) bool {
	if Equal(a, b) {
		return true
	}
	if !IsFloat(reflect.TypeOf(a)) && !IsComplex(reflect.TypeOf(a)) {
		return false
	}
	if reflect.TypeOf(a) != reflect.TypeOf(b) {
		return false
	}
	x, y := ToComplex(a), ToComplex(b)
	if cmplx.IsNaN(x) || cmplx.IsNaN(y) || cmplx.IsInf(x) || cmplx.IsInf(y) {
		return false
	}
	d := cmplx.Abs(x - y)
	m := math.Max(cmplx.Abs(x), cmplx.Abs(y))
	return d <= rel*math.Max(m, 1)
}

type intT interface {
	~int | ~int8 | ~int16 | ~int32 | ~int64 | ~uint | ~uint8 | ~uint16 | ~uint32 | ~uint64
}
type floatT interface{ ~float32 | ~float64 }
type cmplxT interface{ ~complex64 | ~complex128 }
type ordT interface {
	intT | floatT | ~string
}

func binInt[T intT](op string, a, b T) (T, bool) {
	switch op {
	case "Add":
		return a + b, true
	case "Sub":
		return a - b, true
	case "Mul":
		return a * b, true
	case "Div":
		if b == 0 {
			return 0, false
		}
		return a / b, true
	case "Mod":
		if b == 0 {
			return 0, false
		}
		return a % b, true
	case "MinBetween":
		if a < b {
			return a, true
		}
		return b, true
	case "MaxBetween":
		if a > b {
			return a, true
		}
		return b, true
	}
	return 0, false
}

func binF64(op string, a, b float64) (float64, bool) {
	switch op {
	case "Add":
		return a + b, true
	case "Sub":
		return a - b, true
	case "Mul":
		return a * b, true
	case "Div":
		return a / b, true
	case "Mod":
		return math.Mod(a, b), true
	case "Pow":
		return math.Pow(a, b), true
	case "MinBetween":
		if a < b {
			return a, true
		}
		return b, true
	case "MaxBetween":
		if a > b {
			return a, true
		}
		return b, true
	}
	return 0, false
}

func binF32(op string, a, b float32) (float32, bool) {
	switch op {
	case "Add":
		return a + b, true
	case "Sub":
		return a - b, true
	case "Mul":
		return a * b, true
	case "Div":
		return a / b, true
	case "Mod":
		return math32.Mod(a, b), true
	case "Pow":
		return math32.Pow(a, b), true
	case "MinBetween":
		if a < b {
			return a, true
		}
		return b, true
	case "MaxBetween":
		if a > b {
			return a, true
		}
		return b, true
	}
	return 0, false
}

func binC128(op string, a, b complex128) (complex128, bool) {
	switch op {
	case "Add":
		return a + b, true
	case "Sub":
		return a - b, true
	case "Mul":
		return a * b, true
	case "Div":
		return a / b, true
	case "Pow":
		return cmplx.Pow(a, b), true
	}
	return 0, false
}

func binC64(op string, a, b complex64) (complex64, bool) {
	switch op {
	case "Add":
		return a + b, true
	case "Sub":
		return a - b, true
	case "Mul":
		return a * b, true
	case "Div":
		return a / b, true
	case "Pow":
		return complex64(cmplx.Pow(complex128(a), complex128(b))), true
	}
	return 0, false
}

// Bin applies the binary arithmetic operation to two elements of the same
// type. defined=false where Go's operator has no value (integer division or
// modulo by zero) or the operation does not exist for the type.
func Bin(op string, a, b interface{}) (res interface{}, defined bool) {
	switch x := a.(type) {
	case int:
		return binInt(op, x, b.(int))
	case int8:
		return binInt(op, x, b.(int8))
	case int16:
		return binInt(op, x, b.(int16))
	case int32:
		return binInt(op, x, b.(int32))
	case int64:
		return binInt(op, x, b.(int64))
	case uint:
		return binInt(op, x, b.(uint))
	case uint8:
		return binInt(op, x, b.(uint8))
	case uint16:
		return binInt(op, x, b.(uint16))
	case uint32:
		return binInt(op, x, b.(uint32))
	case uint64:
		return binInt(op, x, b.(uint64))
	case float32:
		return binF32(op, x, b.(float32))
	case float64:
		return binF64(op, x, b.(float64))
	case complex64:
		return binC64(op, x, b.(complex64))
	case complex128:
		return binC128(op, x, b.(complex128))
	}
	return nil, false
}

// BinSupported: operation exists for the type (independent of the library's tables).
func BinSupported(op string, t reflect.Type) bool {
	switch op {
	case "Add", "Sub", "Mul", "Div":
		return IsNumber(t)
	case "Mod", "MinBetween", "MaxBetween":
		return IsInt(t) || IsFloat(t)
	case "Pow":
		return IsFloat(t) || IsComplex(t)
	}
	return false
}

func cmpOrd[T ordT](op string, a, b T) bool {
	switch op {
	case "Lt":
		return a < b
	case "Gt":
		return a > b
	case "Lte":
		return a <= b
	case "Gte":
		return a >= b
	case "ElEq":
		return a == b
	case "ElNe":
		return a != b
	}
	panic("cmp op " + op)
}

// Cmp applies Go's comparison. defined=false if the type is not ordered (for
// the ordering comparisons).
func Cmp(op string, a, b interface{}) (res bool, defined bool) {
	switch x := a.(type) {
	case int:
		return cmpOrd(op, x, b.(int)), true
	case int8:
		return cmpOrd(op, x, b.(int8)), true
	case int16:
		return cmpOrd(op, x, b.(int16)), true
	case int32:
		return cmpOrd(op, x, b.(int32)), true
	case int64:
		return cmpOrd(op, x, b.(int64)), true
	case uint:
		return cmpOrd(op, x, b.(uint)), true
	case uint8:
		return cmpOrd(op, x, b.(uint8)), true
	case uint16:
		return cmpOrd(op, x, b.(uint16)), true
	case uint32:
		return cmpOrd(op, x, b.(uint32)), true
	case uint64:
		return cmpOrd(op, x, b.(uint64)), true
	case float32:
		return cmpOrd(op, x, b.(float32)), true
	case float64:
		return cmpOrd(op, x, b.(float64)), true
	case string:
		return cmpOrd(op, x, b.(string)), true
	}
	switch op {
	case "ElEq":
		return a == b, true
	case "ElNe":
		return a != b, true
	}
	return false, false
}

// Less is the order used by Min/Max/Arg* models.
func Less(a, b interface{}) bool { r, _ := Cmp("Lt", a, b); return r }

func unInt[T intT](op string, a T, signed bool) (T, bool) {
	switch op {
	case "Neg":
		return -a, true
	case "Inv":
		if a == 0 {
			return 0, false
		}
		return 1 / a, true
	case "Square":
		return a * a, true
	case "Cube":
		return a * a * a, true
	case "Abs":
		if signed && a < 0 {
			return -a, true
		}
		return a, true
	case "Sign":
		if signed && a < 0 {
			var m T
			m--
			return m, true
		}
		if a > 0 {
			return 1, true
		}
		return 0, true
	}
	return 0, false
}

func unF64(op string, a float64) (float64, bool) {
	switch op {
	case "Neg":
		return -a, true
	case "Inv":
		return 1 / a, true
	case "Square":
		return a * a, true
	case "Cube":
		return a * a * a, true
	case "Abs":
		return math.Abs(a), true
	case "Sign":
		if a < 0 {
			return -1, true
		}
		if a > 0 {
			return 1, true
		}
		return a, true // 0, -0 and NaN: see UnaryNote
	case "Sqrt":
		return math.Sqrt(a), true
	case "Cbrt":
		return math.Cbrt(a), true
	case "InvSqrt":
		return 1 / math.Sqrt(a), true
	case "Exp":
		return math.Exp(a), true
	case "Log":
		return math.Log(a), true
	case "Log2":
		return math.Log2(a), true
	case "Log10":
		return math.Log10(a), true
	case "Tanh":
		return math.Tanh(a), true
	}
	return 0, false
}

func unF32(op string, a float32) (float32, bool) {
	switch op {
	case "Neg":
		return -a, true
	case "Inv":
		return 1 / a, true
	case "Square":
		return a * a, true
	case "Cube":
		return a * a * a, true
	case "Abs":
		return math32.Abs(a), true
	case "Sign":
		if a < 0 {
			return -1, true
		}
		if a > 0 {
			return 1, true
		}
		return a, true
	case "Sqrt":
		return math32.Sqrt(a), true
	case "Cbrt":
		return math32.Cbrt(a), true
	case "InvSqrt":
		return 1 / math32.Sqrt(a), true
	case "Exp":
		return math32.Exp(a), true
	case "Log":
		return math32.Log(a), true
	case "Log2":
		return math32.Log2(a), true
	case "Log10":
		return math32.Log10(a), true
	case "Tanh":
		return math32.Tanh(a), true
	}
	return 0, false
}

func unC128(op string, a complex128) (complex128, bool) {
	switch op {
	case "Neg":
		return -a, true
	case "Inv":
		return 1 / a, true
	case "Square":
		return a * a, true
	case "Cube":
		return a * a * a, true
	case "Sqrt":
		return cmplx.Sqrt(a), true
	case "Exp":
		return cmplx.Exp(a), true
	case "Log":
		return cmplx.Log(a), true
	case "Log10":
		return cmplx.Log10(a), true
	case "Tanh":
		return cmplx.Tanh(a), true
	}
	return 0, false
}

// Unary applies the scalar function to an element. defined=false where no
// value is demanded (integer 1/0) or the function does not exist for the type.
func Unary(op string, a interface{}) (interface{}, bool) {
	switch x := a.(type) {
	case int:
		return unInt(op, x, true)
	case int8:
		return unInt(op, x, true)
	case int16:
		return unInt(op, x, true)
	case int32:
		return unInt(op, x, true)
	case int64:
		return unInt(op, x, true)
	case uint:
		return unInt(op, x, false)
	case uint8:
		return unInt(op, x, false)
	case uint16:
		return unInt(op, x, false)
	case uint32:
		return unInt(op, x, false)
	case uint64:
		return unInt(op, x, false)
	case float32:
		return unF32(op, x)
	case float64:
		return unF64(op, x)
	case complex64:
		r, ok := unC128(op, complex128(x))
		if op == "Neg" {
			return -x, true
		}
		if op == "Inv" {
			return 1 / x, true
		}
		if op == "Square" {
			return x * x, true
		}
		if op == "Cube" {
			return x * x * x, true
		}
		return complex64(r), ok
	case complex128:
		return unC128(op, x)
	}
	return nil, false
}

// Clamp is the scalar clamp for ordered numeric types.
func Clamp(a, lo, hi interface{}) interface{} {
	if Less(a, lo) {
		return lo
	}
	if Less(hi, a) {
		return hi
	}
	return a
}

// Zero returns the zero element of t.
func Zero(t reflect.Type) interface{} { return reflect.Zero(t).Interface() }

// One returns the element 1 of a numeric type.
func One(t reflect.Type) interface{} { return FromInt(t, 1) }
