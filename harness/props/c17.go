package props

import (
	"fmt"
	"math"
	"reflect"
	"runtime"
	"sort"
	"strconv"
	"strings"

	"gorgonia.org/tensor"
	"gorgonia.org/tensor/native"

	"verifharness/core"
	"verifharness/gen"
	"verifharness/model"
)

// C17 — every element-type specialisation computes the same function.
//
// Every family is run on *the same small integer values* in every element type that the one generic
// definition exists for. Two oracles: (1) the type-generic reference model (as in C06-C12, C15),
// (2) agreement across element types after conversion to a common carrier (complex128; booleans as 0/1),
// which does not depend on the model at all. The deviating type is named in the signature.

func init() {
	register(&core.Prop{
		ID: "C17",
		Rule: "class matrix: {8 arithmetic, 6 comparison, 15 unary operations + Apply} x every element type x forms {tensor-tensor, tensor-scalar, scalar-tensor} x option modes {safe, unsafe, reuse, incr, same-type} x layouts {contiguous (flat kernels), stepped slice (iterator kernels)}; {Sum, Max, Min, Argmax, Argmin, Reduce} x every number type x every axis; 8 masking predicates x ordered types x soft/hard x prior mask; typed Get/Set/Memset/Zero/Eq/At/SetAt on contiguous tensors and views of every element type; native Vector/Matrix/Tensor3/Select of every element type; Ones/I/FromMat64/ToMat64 per type. " +
			"Operand values are the same integers 0..9 in every type, chosen so that exact results are representable in all of them (ordered operands for Sub, exact quotients for Div, perfect squares/cubes/powers of two for the roots and logarithms). " +
			"Oracle 1: the type-generic reference definition; oracle 2: results converted to complex128 are identical in every element type that serves the call (the deviating type is the one that differs from the majority). " +
			"Exhaustiveness is measured, not assumed: the same workload runs in a build with coverage counters and the evidence lists, per generated source file, how many functions were entered (coverage.function_coverage; the functions not entered are listed in evidence/C17.unreached.txt). distinct_nontrivial counts distinct (operation, form, mode, layout, element type) keys.",
		Assume:   []string{"cross-type agreement is demanded only where the exact result is representable in both types (the statement's own restriction); transcendental functions on general arguments are judged against the model of their own type only"},
		Flavours: func(tier string) []string { return []string{"plain", "cover"} },
		Groups:   c17Groups,
	})
}

func c17Groups(tier string) []core.Group {
	var gs []core.Group
	for _, fam := range []string{"arith", "cmp", "unary"} {
		ops := map[string][]string{"arith": arithOps, "cmp": cmpOps, "unary": unaryOps}[fam]
		for _, op := range ops {
			fam, op := fam, op
			gs = append(gs, core.Group{Key: fmt.Sprintf("ew/%s/%s", fam, op), Run: func(c *core.Ctx) { c17Elementwise(c, fam, op) }})
		}
	}
	for _, red := range []string{"Sum", "Max", "Min", "Argmax", "Argmin", "Reduce"} {
		red := red
		gs = append(gs, core.Group{Key: "reduce/" + red, Run: func(c *core.Ctx) { c17Reduce(c, red) }})
	}
	for _, pr := range c15Preds {
		pr := pr
		gs = append(gs, core.Group{Key: "mask/" + pr.name, Run: func(c *core.Ctx) { c17Mask(c, pr) }})
	}
	gs = append(gs, core.Group{Key: "softmax-twins", Run: c17SoftmaxTwins})
	gs = append(gs, core.Group{Key: "map-err", Run: c17MapErr})
	gs = append(gs, core.Group{Key: "masked-arg", Run: c17MaskedArg})
	gs = append(gs, core.Group{Key: "masked-map", Run: c17MaskedMap})
	gs = append(gs, core.Group{Key: "reduce-order", Run: c17ReduceOrder})
	gs = append(gs, core.Group{Key: "durable", Run: c17Durable})
	gs = append(gs, core.Group{Key: "getset", Run: c17GetSet})
	gs = append(gs, core.Group{Key: "native", Run: c17Native})
	gs = append(gs, core.Group{Key: "construct", Run: c17Construct})
	return gs
}

func carrier(v interface{}) complex128 {
	switch x := v.(type) {
	case bool:
		if x {
			return 1
		}
		return 0
	}
	z := model.ToComplex(v)
	return complex(real(z)+0, imag(z)+0) // -0 and +0 are the same number
}

func carriers(vs []interface{}) []complex128 {
	out := make([]complex128, len(vs))
	for i, v := range vs {
		out[i] = carrier(v)
	}
	return out
}

func fromInts(t reflect.Type, xs []int64) []interface{} {
	out := make([]interface{}, len(xs))
	for i, x := range xs {
		out[i] = model.FromInt(t, x)
	}
	return out
}

// xtObs is one type's observation of a call class.
type xtObs struct {
	t    reflect.Type
	vals []complex128
	aux  string // shape / result type class, compared too
}

// xtAgree compares the observations of one call class across element types and reports the types that
// differ from the majority.
func xtAgree(c *core.Ctx, class string, caseKey string, desc map[string]interface{}, obs []xtObs) {
	if len(obs) < 2 {
		return
	}
	render := func(o xtObs) string { return o.aux + fmt.Sprint(o.vals) }
	count := map[string]int{}
	for _, o := range obs {
		count[render(o)]++
	}
	best, bn := "", -1
	keys := make([]string, 0, len(count))
	for k := range count {
		keys = append(keys, k)
	}
	sort.Strings(keys)
	for _, k := range keys {
		if count[k] > bn {
			best, bn = k, count[k]
		}
	}
	c.Eval("xtype|"+class, true)
	for _, o := range obs {
		if render(o) != best {
			c.Violation(core.Sig("xtype-disagree", class, model.Name(o.t)), caseKey, desc, "majority of element types: "+short(best), model.Name(o.t)+": "+short(render(o)))
		}
	}
}

// representable says whether every value of the exact result exists in element type t (the statement restricts
// cross-type agreement to results representable in both types).
func representable(t reflect.Type, zs []complex128) bool {
	for _, z := range zs {
		re, im := real(z), imag(z)
		if re != re || im != im {
			return false
		}
		switch {
		case model.IsComplex(t):
			if t.Kind() == reflect.Complex64 && (float64(float32(re)) != re || float64(float32(im)) != im) {
				return false
			}
		case im != 0:
			return false
		case t.Kind() == reflect.Float32:
			if float64(float32(re)) != re {
				return false
			}
		case t.Kind() == reflect.Float64:
		case model.IsInt(t):
			if re != float64(int64(re)) {
				return false
			}
			bits := uint(t.Bits())
			if model.IsSigned(t) {
				lim := float64(int64(1) << (bits - 1))
				if bits == 64 {
					lim = 9.2e18
				}
				if re < -lim || re >= lim {
					return false
				}
			} else {
				lim := 1.8e19
				if bits < 64 {
					lim = float64(uint64(1) << bits)
				}
				if re < 0 || re >= lim {
					return false
				}
			}
		default:
			return false
		}
	}
	return true
}

// c17Vals returns the operand values (as integers) of one call class: the same in every element type.
func c17Vals(fam, op, form string, n int) (a, b []int64, s int64) {
	a, b = make([]int64, n), make([]int64, n)
	for i := 0; i < n; i++ {
		a[i] = 3 + int64((i*3+1)%4) // 3..6, not sorted
		b[i] = 1 + int64(i%3)       // 1..3
	}
	s = 2
	switch fam {
	case "arith":
		switch op {
		case "Sub":
			if form == "ST" {
				s = 9
			}
		case "Div":
			for i := 0; i < n; i++ {
				b[i] = 1 + int64(i%2)              // 1,2
				a[i] = b[i] * (1 + int64((i+1)%3)) // exact quotients 1..3
			}
			if form == "TS" {
				for i := 0; i < n; i++ {
					a[i] = 2 * (1 + int64((i*2+1)%4)) // 2..8, multiples of the scalar
				}
			}
			if form == "ST" {
				for i := 0; i < n; i++ {
					a[i] = []int64{3, 4, 5, 6, 2, 10}[i%6] // divisors of 60
				}
				s = 60
			}
		case "Mod":
			if form == "ST" {
				s = 7
			}
		case "Pow":
			for i := 0; i < n; i++ {
				a[i] = 2 + int64(i%3)     // 2..4
				b[i] = 1 + int64((i+1)%3) // 1..3
			}
			if form == "ST" {
				s = 2 // 2^a, a in 2..4
			}
		}
	case "cmp":
		for i := 0; i < n; i++ {
			b[i] = 3 + int64((i*5+2)%4) // overlaps a: equal, smaller and larger pairs
		}
		s = 4
	case "unary":
		switch op {
		case "Sqrt", "InvSqrt":
			for i := 0; i < n; i++ {
				a[i] = []int64{4, 1, 16, 64, 4, 16}[i%6]
			}
		case "Cbrt":
			for i := 0; i < n; i++ {
				a[i] = []int64{8, 1, 27, 64, 8, 1}[i%6]
			}
		case "Inv", "Log2":
			for i := 0; i < n; i++ {
				a[i] = []int64{2, 1, 4, 8, 2, 4}[i%6]
			}
		case "Neg", "Abs", "Sign":
			for i := 0; i < n; i++ {
				a[i] = []int64{3, 0, 5, 1, 6, 2}[i%6]
			}
		case "Exp", "Tanh":
			for i := range a {
				a[i] = 0 // exp(0)=1, tanh(0)=0 are exact in every type
			}
		case "Log", "Log10":
			for i := range a {
				a[i] = 1 // log(1)=0
			}
		}
	}
	return
}

func c17Elementwise(c *core.Ctx, fam, op string) {
	// (a single element takes the kernels' own scalar arms, generated per element type like the rest)
	shapes := [][]int{{2, 3}, {1}}
	if c.Tier == "thorough" {
		shapes = [][]int{{6}, {2, 3}, {3, 1, 2}, {1}, {1, 1}}
	}
	forms := []string{"TT", "TS", "ST"}
	var modes []string
	switch fam {
	case "arith":
		modes = []string{"safe", "unsafe", "reuse", "incr", "reuseB"}
	case "cmp":
		modes = []string{"bool", "same", "unsafe", "reuse-bool", "reuse-same"}
	default:
		modes = []string{"safe", "unsafe", "reuse", "incr"}
		forms = []string{"T"}
	}
	lays := [][2]string{{gen.LC, gen.LC}, {gen.LSS, gen.LSS}}
	apis := []string{"func"}
	if c.Tier == "thorough" {
		lays = append(lays, [2]string{gen.LC, gen.LSS}, [2]string{gen.LT, gen.LC}, [2]string{gen.LS, gen.LT}, [2]string{gen.LF, gen.LF})
		apis = []string{"func", "method"}
		shapes = append(shapes, []int{2, 2, 2, 2}, []int{5, 4})
		if fam != "cmp" {
			modes = append(modes, "reuseA")
		}
	}
	for _, shape := range shapes {
		n := model.Size(shape)
		for _, form := range forms {
			for _, mode := range modes {
				if mode == "reuseB" && form != "TT" {
					continue
				}
				if mode == "incr" && (op == "MinBetween" || op == "MaxBetween") {
					continue
				}
				for _, api := range apis {
					for _, lp := range lays {
						if api == "method" && fam == "unary" {
							continue
						}
						if form != "TT" && lp[0] != lp[1] {
							if lp[0] == gen.LC {
								continue
							}
						}
						av, bv, sv := c17Vals(fam, op, form, n)
						dvi := make([]int64, n)
						for i := range dvi {
							dvi[i] = 1 + int64((i+2)%3)
						}
						// the one generic definition, evaluated in float64 on the same integers
						var ref []complex128
						{
							rsp := ewSpec{Family: fam, Op: op, T: model.TF64, Form: form, Mode: mode, Shape: shape}
							if ewDefinedFor(rsp) {
								am := model.New(model.TF64, shape, fromInts(model.TF64, av))
								var bm *model.ND
								if form == "TT" {
									bm = model.New(model.TF64, shape, fromInts(model.TF64, bv))
								}
								w, def := ewExpected(rsp, am, bm, model.FromInt(model.TF64, sv))
								ok := w != nil
								for _, d := range def {
									ok = ok && d
								}
								if ok {
									ref = carriers(w.V)
									if mode == "incr" {
										for i := range ref {
											ref[i] += complex(float64(dvi[i]), 0)
										}
									}
								}
							}
						}
						var obs []xtObs
						var anySp ewSpec
						for _, t := range model.AllTypes {
							sp := ewSpec{Family: fam, Op: op, T: t, Form: form, LayA: lp[0], Mode: mode, API: api, Shape: shape, Vals: "xt"}
							if form == "TT" {
								sp.LayB = lp[1]
							}
							if mode == "reuse" || mode == "incr" || mode == "reuse-bool" || mode == "reuse-same" {
								sp.Dest = gen.LC
							}
							if !ewDefinedFor(sp) {
								continue
							}
							if !model.IsNumber(t) {
								// bool and string have no integer values: their own ramp, judged against the model only; a same-type
								// comparison result and an increment do not exist for them
								if mode == "incr" || mode == "same" || mode == "unsafe" && fam == "cmp" || mode == "reuse-same" {
									continue
								}
								sp.Vals = "small"
							} else {
								sp.FixA, sp.FixB, sp.FixS = fromInts(t, av), fromInts(t, bv), model.FromInt(t, sv)
								sp.FixD = fromInts(t, dvi)
							}
							o := ewRun(c, sp)
							eq := c07Eq(sp)
							if fam == "cmp" {
								eq = model.Same
							}
							if !ewJudge(c, o, ewPolicy{eq: eq, sigDtype: true}) {
								continue
							}
							c.Eval(sp.key(), true)
							c.Tally("served:" + model.Name(t))
							if c.WantSample("ew/" + fam + "/" + mode) {
								d := sp.desc()
								d["a"], d["b"], d["scalar"] = av, bv, sv
								c.Sample("ew/"+fam+"/"+mode, d)
							}
							if model.IsNumber(t) && o.resM != nil && !o.panicked && o.err == nil {
								if ref != nil && o.resM.T == t && !representable(t, ref) {
									c.Tally("exact-result-not-representable:" + op + ":" + model.Name(t))
									continue
								}
								rt := "same"
								if o.resM.T == model.TBool {
									rt = "bool"
								} else if o.resM.T != t {
									rt = model.Name(o.resM.T)
								}
								got := carriers(o.resM.V)
								if ref != nil && len(got) == len(ref) {
									for i := range ref {
										if got[i] != ref[i] {
											d := sp.desc()
											d["a"], d["b"], d["scalar"] = av, bv, sv
											c.Violation(core.Sig("differs-from-generic-definition", op, form, mode, lp[0]+","+lp[1], model.Name(t)), sp.caseKey(), d, short(fmt.Sprint(ref)), short(fmt.Sprint(got)))
											break
										}
									}
								}
								obs = append(obs, xtObs{t: t, vals: got, aux: rt + shapeStr(o.resM.Shape)})
								anySp = sp
							}
						}
						if len(obs) > 0 {
							class := core.Sig(op, form, mode, lp[0]+","+lp[1])
							d := anySp.desc()
							delete(d, "dtype")
							d["a"], d["b"], d["scalar"] = av, bv, sv
							xtAgree(c, class, fmt.Sprintf("ew/%s/%s/%s/%s/%s,%s/%s/%s", fam, op, form, mode, lp[0], lp[1], shapeStr(shape), api), d, obs)
						}
					}
				}
			}
		}
	}
	// negative control: a type whose result has its operands exchanged must be singled out
	{
		var caught bool
		obs := []xtObs{{t: model.TInt, vals: []complex128{1, 2}}, {t: model.TInt8, vals: []complex128{1, 2}}, {t: model.TInt32, vals: []complex128{-1, -2}}}
		caught = c17Deviants(obs)[0] == model.TInt32
		c.Control(caught)
	}
}

// c17Deviants returns the types differing from the majority (used by the negative control).
func c17Deviants(obs []xtObs) []reflect.Type {
	count := map[string]int{}
	for _, o := range obs {
		count[o.aux+fmt.Sprint(o.vals)]++
	}
	best, bn := "", -1
	for k, n := range count {
		if n > bn || (n == bn && k < best) {
			best, bn = k, n
		}
	}
	var out []reflect.Type
	for _, o := range obs {
		if o.aux+fmt.Sprint(o.vals) != best {
			out = append(out, o.t)
		}
	}
	if out == nil {
		out = []reflect.Type{nil}
	}
	return out
}

func c17Reduce(c *core.Ctx, red string) {
	shapes := [][]int{{2, 3}, {3, 2, 2}}
	if c.Tier == "thorough" {
		shapes = append(shapes, []int{6}, []int{2, 3, 2, 2})
	}
	add := func(a, b interface{}) interface{} { r, _ := model.Bin("Add", a, b); return r }
	for _, shape := range shapes {
		n := model.Size(shape)
		rank := len(shape)
		vi := make([]int64, n)
		for i := range vi {
			vi[i] = int64((i*5 + 3) % 7) // 0..6, unsorted, with ties
		}
		for _, lay := range []string{gen.LC, gen.LSS, gen.LT} {
			axesList := [][]int{nil}
			for ax := 0; ax < rank; ax++ {
				axesList = append(axesList, []int{ax})
			}
			for _, axes := range axesList {
				var obs []xtObs
				for _, t := range model.AllTypes {
					if !model.IsNumber(t) {
						continue
					}
					if model.IsComplex(t) && red != "Sum" {
						continue
					}
					if red == "Reduce" && (axes == nil || reduceFn(t) == nil) {
						continue
					}
					m := model.New(t, shape, fromInts(t, vi))
					op, err := gen.Build(m, lay, c.Rng)
					if err != nil || op.Layout != lay || op.Validate() != nil {
						continue
					}
					var res tensor.Tensor
					var rerr error
					var want *model.ND
					all := make([]int, rank)
					for i := range all {
						all[i] = i
					}
					ra := axes
					if ra == nil {
						ra = all
					}
					better := func(x, best interface{}) bool { return model.Less(best, x) }
					if red == "Argmin" {
						better = func(x, best interface{}) bool { return model.Less(x, best) }
					}
					p, msg := core.Catch(func() {
						switch red {
						case "Sum":
							res, rerr = op.D.Sum(axes...)
							want = model.Reduce(m, ra, add)
						case "Max":
							res, rerr = op.D.Max(axes...)
							want = model.Reduce(m, ra, func(a, b interface{}) interface{} {
								if model.Less(a, b) {
									return b
								}
								return a
							})
						case "Min":
							res, rerr = op.D.Min(axes...)
							want = model.Reduce(m, ra, func(a, b interface{}) interface{} {
								if model.Less(b, a) {
									return b
								}
								return a
							})
						case "Argmax", "Argmin":
							ax := tensor.AllAxes
							if axes != nil {
								ax = axes[0]
								want = model.ArgExt(m, ax, better)
							} else {
								want = &model.ND{T: model.TInt, Shape: []int{}, V: []interface{}{model.ArgExtAll(m, better)}}
							}
							if red == "Argmax" {
								res, rerr = op.D.Argmax(ax)
							} else {
								res, rerr = op.D.Argmin(ax)
							}
						case "Reduce":
							res, rerr = op.D.Reduce(reduceFn(t), axes[0], model.Zero(t))
							want = model.Reduce(m, ra, add)
						}
					})
					key := core.Sig(red, model.Name(t), shapeStr(shape), fmt.Sprint(axes), lay)
					caseKey := fmt.Sprintf("reduce/%s/%s/%s/%v/%s", red, model.Name(t), shapeStr(shape), axes, lay)
					desc := map[string]interface{}{"op": red, "dtype": model.Name(t), "shape": shape, "axes": axes, "layout": lay, "values": vi}
					c.Eval(key, true)
					if p || rerr != nil {
						if rerr != nil {
							msg = rerr.Error()
						}
						if lay == gen.LC && !model.IsComplex(t) {
							c.Violation(core.Sig(red, model.Name(t), "refused-contiguous"), caseKey, desc, "a result", msg)
						} else {
							c.Refused(red + "|" + lay + "|" + dtypeClass(t))
						}
						continue
					}
					rd, ok := res.(*tensor.Dense)
					if !ok || rd == nil {
						c.Violation(core.Sig(red, model.Name(t), "not-dense"), caseKey, desc, "*Dense", fmt.Sprintf("%T", res))
						continue
					}
					got, gerr := gen.ReadAll(rd)
					if gerr != nil {
						c.Violation(core.Sig(red, model.Name(t), "result-unreadable"), caseKey, desc, "a readable tensor", gerr.Error())
						continue
					}
					if e := gen.ReadMatchesBy(rd, want, model.Equal); e != nil {
						c.Violation(core.Sig(red, model.Name(t), lay, "wrong-fold"), caseKey, desc, short(want.V), e.Error())
					}
					if c.WantSample("reduce/" + red) {
						c.Sample("reduce/"+red, desc)
					}
					rt := "same"
					if red == "Argmax" || red == "Argmin" {
						rt = model.Name(got.T) // indices: int for every element type
					} else if got.T != t {
						rt = model.Name(got.T)
					}
					obs = append(obs, xtObs{t: t, vals: carriers(got.V), aux: rt + shapeStr(got.Shape)})
				}
				xtAgree(c, core.Sig(red, fmt.Sprintf("rank%d", rank), fmt.Sprint(axes), lay), fmt.Sprintf("reduce/%s/%s/%v/%s", red, shapeStr(shape), axes, lay),
					map[string]interface{}{"op": red, "shape": shape, "axes": axes, "layout": lay, "values": vi}, obs)
			}
		}
	}
	c.Control(c17Deviants([]xtObs{{t: model.TF32, vals: []complex128{6}}, {t: model.TF64, vals: []complex128{6}}, {t: model.TUint8, vals: []complex128{5}}})[0] == model.TUint8)
}

func c17Mask(c *core.Ctx, pr c15Pred) {
	shapes := [][]int{{6}, {2, 3}}
	for _, shape := range shapes {
		n := model.Size(shape)
		vi := make([]int64, n)
		for i := range vi {
			vi[i] = int64((i*5 + 3) % 7)
		}
		for _, soft := range []bool{false, true} {
			for _, prior := range []string{"none", "empty", "some", "all"} {
				for _, steps := range []int{1, 2} {
					var obs []xtObs
					for _, t := range model.AllTypes {
						if !model.IsInt(t) && !model.IsFloat(t) {
							continue
						}
						m := model.New(t, shape, fromInts(t, vi))
						op, err := gen.Build(m, gen.LC, c.Rng)
						if err != nil {
							continue
						}
						d := op.D
						var pm []bool
						switch prior {
						case "empty":
							pm = make([]bool, n)
						case "some":
							pm = make([]bool, n)
							for i := range pm {
								pm[i] = i%2 == 0
							}
						case "all":
							pm = make([]bool, n)
							for i := range pm {
								pm[i] = true
							}
						}
						if pm != nil {
							d.MaskFromSlice(append([]bool(nil), pm...))
						}
						if soft {
							d.SoftenMask()
						} else {
							d.HardenMask()
						}
						want := make([]bool, n)
						copy(want, pm)
						failed := false
						for st := 0; st < steps; st++ {
							lo, hi := int64(2+st*2), int64(4+st*2)
							args := []interface{}{model.FromInt(t, lo)}
							margs := []interface{}{model.FromInt(t, lo)}
							if pr.args == 2 {
								args = append(args, model.FromInt(t, hi))
								margs = append(margs, model.FromInt(t, hi))
							}
							var cerr error
							var ok bool
							p, msg := core.Catch(func() { cerr, ok = callMethod(d, pr.name, args...) })
							caseKey := fmt.Sprintf("mask/%s/%s/%s/soft=%v/prior=%s/step%d", pr.name, model.Name(t), shapeStr(shape), soft, prior, st)
							desc := map[string]interface{}{"predicate": pr.name, "dtype": model.Name(t), "values": vi, "args": []int64{lo, hi}[:pr.args], "soft": soft, "prior": prior, "step": st}
							if !ok {
								failed = true
								break
							}
							c.Eval(core.Sig(pr.name, model.Name(t), fmt.Sprint(soft), prior, fmt.Sprint(st)), true)
							if p || cerr != nil {
								if cerr != nil {
									msg = cerr.Error()
								}
								c.Violation(core.Sig(pr.name, model.Name(t), "refused"), caseKey, desc, "a mask", msg)
								failed = true
								break
							}
							for i := 0; i < n; i++ {
								pv := pr.fn(m.V[i], margs)
								if soft {
									want[i] = pv
								} else {
									want[i] = want[i] || pv
								}
							}
							got := d.Mask()
							if len(got) != n {
								c.Violation(core.Sig(pr.name, model.Name(t), "mask-length"), caseKey, desc, n, len(got))
								failed = true
								break
							}
							for i := 0; i < n; i++ {
								if got[i] != want[i] {
									c.Violation(core.Sig(pr.name, model.Name(t), map[bool]string{true: "soft", false: "hard"}[soft], "wrong-mask"), caseKey, desc, fmt.Sprint(want), fmt.Sprint(got))
									break
								}
							}
							if c.WantSample("mask/" + pr.name) {
								c.Sample("mask/"+pr.name, desc)
							}
						}
						if failed {
							continue
						}
						mv := make([]complex128, n)
						for i, b := range d.Mask() {
							if b {
								mv[i] = 1
							}
						}
						obs = append(obs, xtObs{t: t, vals: mv})
					}
					xtAgree(c, core.Sig(pr.name, fmt.Sprint(soft), prior, fmt.Sprintf("steps%d", steps)), fmt.Sprintf("mask/%s/%s/soft=%v/prior=%s/steps%d", pr.name, shapeStr(shape), soft, prior, steps),
						map[string]interface{}{"predicate": pr.name, "values": vi, "soft": soft, "prior": prior, "steps": steps}, obs)
				}
			}
		}
	}
	c.Control(c17Deviants([]xtObs{{t: model.TF32, vals: []complex128{0, 1}}, {t: model.TF64, vals: []complex128{1, 1}}, {t: model.TInt, vals: []complex128{1, 1}}})[0] == model.TF32)
}

// c17GetSet: the typed accessors of every element type on a contiguous tensor and on a stepped view.
func c17GetSet(c *core.Ctx) {
	for _, t := range model.AllTypes {
		tn := model.Name(t)
		for _, lay := range []string{gen.LC, gen.LSS, gen.LT, gen.LF} {
			shape := []int{2, 3}
			n := 6
			mk := func() *gen.Operand {
				op, err := gen.Build(model.New(t, shape, gen.Ramp(t, n, 1)), lay, c.Rng)
				if err != nil || op.Layout != lay || op.Validate() != nil {
					return nil
				}
				return op
			}
			viol := func(what, caseKey string, want, got interface{}) {
				c.Violation(core.Sig(what, tn, lay), caseKey, map[string]interface{}{"dtype": tn, "layout": lay, "op": what}, want, got)
			}
			x := gen.Ramp(t, 1, 40)[0]
			differ := func(cur interface{}) interface{} {
				if b, ok := cur.(bool); ok {
					return !b
				}
				return x
			}
			// SetAt / At at every coordinate: only that element changes, in the parent too
			if op := mk(); op != nil {
				model.Each(shape, func(co []int, r int) {
					snap := op.Snap()
					ck := fmt.Sprintf("SetAt/%s/%s/%v", tn, lay, co)
					var err error
					x := differ(op.M.V[r])
					p, msg := core.Catch(func() { err = op.D.SetAt(x, co...) })
					c.Eval(core.Sig("SetAt", tn, lay), true)
					if p || err != nil {
						if err != nil {
							msg = err.Error()
						}
						viol("SetAt-refused", ck, "element stored", msg)
						return
					}
					ch := op.Changed(snap)
					if len(ch) != 1 || ch[0] != op.Off[r] {
						viol("SetAt-wrong-position", ck, []int{op.Off[r]}, ch)
					}
					g, e := op.D.At(co...)
					if e != nil || !model.Same(g, x) {
						viol("At-after-SetAt", ck, x, fmt.Sprint(g, e))
					}
					setBacking(op, op.Off[r], op.M.V[r])
				})
			}
			// Memset: every element of the tensor, nothing else
			if op := mk(); op != nil {
				snap := op.Snap()
				var err error
				p, msg := core.Catch(func() { err = op.D.Memset(x) })
				c.Eval(core.Sig("Memset", tn, lay), true)
				if p || err != nil {
					if err != nil {
						msg = err.Error()
					}
					viol("Memset-refused", "Memset/"+tn+"/"+lay, "all elements set", msg)
				} else {
					if out := op.OutsideChanged(snap); len(out) > 0 {
						viol("Memset-outside", "Memset/"+tn+"/"+lay, "only the tensor's elements", out)
					}
					cur := op.Current()
					for i, v := range cur.V {
						if !model.Same(v, x) {
							viol("Memset-missed", "Memset/"+tn+"/"+lay, x, fmt.Sprint("element ", i, " is ", v))
							break
						}
					}
				}
			}
			// Zero
			if op := mk(); op != nil {
				snap := op.Snap()
				p, msg := core.Catch(func() { op.D.Zero() })
				c.Eval(core.Sig("Zero", tn, lay), true)
				if p {
					viol("Zero-panic", "Zero/"+tn+"/"+lay, "all elements zero", msg)
				} else {
					if out := op.OutsideChanged(snap); len(out) > 0 {
						viol("Zero-outside", "Zero/"+tn+"/"+lay, "only the tensor's elements", out)
					}
					for i, v := range op.Current().V {
						if !model.Same(v, model.Zero(t)) {
							viol("Zero-missed", "Zero/"+tn+"/"+lay, model.Zero(t), fmt.Sprint("element ", i, " is ", v))
							break
						}
					}
				}
			}
			// Eq: equal to an independent tensor with the same contents, different from one that differs in the last element
			// (Dense.Eq compares metadata and storage, so only like-laid-out tensors are compared)
			if op := mk(); op != nil && lay == gen.LC {
				same, _ := gen.Build(op.M, gen.LC, c.Rng)
				dv := append([]interface{}(nil), op.M.V...)
				dv[n-1] = differ(dv[n-1])
				diff, _ := gen.Build(model.New(t, shape, dv), gen.LC, c.Rng)
				c.Eval(core.Sig("Eq", tn, lay), true)
				var e1, e2 bool
				p, msg := core.Catch(func() { e1, e2 = op.D.Eq(same.D), op.D.Eq(diff.D) })
				switch {
				case p:
					viol("Eq-panic", "Eq/"+tn+"/"+lay, "a verdict", msg)
				case !e1:
					viol("Eq-false-on-equal", "Eq/"+tn+"/"+lay, true, false)
				case e2:
					viol("Eq-true-on-different", "Eq/"+tn+"/"+lay, false, true)
				}
			}
			// Get/Set by flat storage index on owners of their storage
			if lay == gen.LC {
				if op := mk(); op != nil {
					for i := 0; i < n; i++ {
						snap := op.Snap()
						x := differ(op.M.V[i])
						op.D.Set(i, x)
						c.Eval(core.Sig("Set", tn, lay), true)
						if ch := op.Changed(snap); len(ch) != 1 || ch[0] != i {
							viol("Set-wrong-position", fmt.Sprintf("Set/%s/%d", tn, i), []int{i}, ch)
						}
						if g := op.D.Get(i); !model.Same(g, x) {
							viol("Get-after-Set", fmt.Sprintf("Get/%s/%d", tn, i), x, g)
						}
						setBacking(op, i, op.M.V[i])
					}
				}
			}
		}
	}
	// negative control: a Memset that misses an element must be noticed
	op, _ := gen.Build(model.New(model.TInt16, []int{2, 3}, gen.Ramp(model.TInt16, 6, 1)), gen.LC, c.Rng)
	op.D.Memset(int16(40))
	setBacking(op, 3, int16(7))
	missed := false
	for _, v := range op.Current().V {
		if !model.Same(v, int16(40)) {
			missed = true
		}
	}
	c.Control(missed)
}

var nativeSuffix = map[reflect.Kind]string{reflect.Bool: "B", reflect.Int: "I", reflect.Int8: "I8", reflect.Int16: "I16", reflect.Int32: "I32", reflect.Int64: "I64",
	reflect.Uint: "U", reflect.Uint8: "U8", reflect.Uint16: "U16", reflect.Uint32: "U32", reflect.Uint64: "U64", reflect.Float32: "F32", reflect.Float64: "F64",
	reflect.Complex64: "C64", reflect.Complex128: "C128", reflect.String: "Str"}

var nativeFns = map[string]interface{}{
	"VectorB": native.VectorB, "MatrixB": native.MatrixB, "Tensor3B": native.Tensor3B, "SelectB": native.SelectB,
	"VectorI": native.VectorI, "MatrixI": native.MatrixI, "Tensor3I": native.Tensor3I, "SelectI": native.SelectI,
	"VectorI8": native.VectorI8, "MatrixI8": native.MatrixI8, "Tensor3I8": native.Tensor3I8, "SelectI8": native.SelectI8,
	"VectorI16": native.VectorI16, "MatrixI16": native.MatrixI16, "Tensor3I16": native.Tensor3I16, "SelectI16": native.SelectI16,
	"VectorI32": native.VectorI32, "MatrixI32": native.MatrixI32, "Tensor3I32": native.Tensor3I32, "SelectI32": native.SelectI32,
	"VectorI64": native.VectorI64, "MatrixI64": native.MatrixI64, "Tensor3I64": native.Tensor3I64, "SelectI64": native.SelectI64,
	"VectorU": native.VectorU, "MatrixU": native.MatrixU, "Tensor3U": native.Tensor3U, "SelectU": native.SelectU,
	"VectorU8": native.VectorU8, "MatrixU8": native.MatrixU8, "Tensor3U8": native.Tensor3U8, "SelectU8": native.SelectU8,
	"VectorU16": native.VectorU16, "MatrixU16": native.MatrixU16, "Tensor3U16": native.Tensor3U16, "SelectU16": native.SelectU16,
	"VectorU32": native.VectorU32, "MatrixU32": native.MatrixU32, "Tensor3U32": native.Tensor3U32, "SelectU32": native.SelectU32,
	"VectorU64": native.VectorU64, "MatrixU64": native.MatrixU64, "Tensor3U64": native.Tensor3U64, "SelectU64": native.SelectU64,
	"VectorF32": native.VectorF32, "MatrixF32": native.MatrixF32, "Tensor3F32": native.Tensor3F32, "SelectF32": native.SelectF32,
	"VectorF64": native.VectorF64, "MatrixF64": native.MatrixF64, "Tensor3F64": native.Tensor3F64, "SelectF64": native.SelectF64,
	"VectorC64": native.VectorC64, "MatrixC64": native.MatrixC64, "Tensor3C64": native.Tensor3C64, "SelectC64": native.SelectC64,
	"VectorC128": native.VectorC128, "MatrixC128": native.MatrixC128, "Tensor3C128": native.Tensor3C128, "SelectC128": native.SelectC128,
	"VectorStr": native.VectorStr, "MatrixStr": native.MatrixStr, "Tensor3Str": native.Tensor3Str, "SelectStr": native.SelectStr,
}

// flatten walks a nested Go slice ([]T, [][]T, [][][]T) in order.
func flatten(v reflect.Value, out *[]interface{}, dims *[]int, depth int) {
	if v.Kind() != reflect.Slice {
		*out = append(*out, v.Interface())
		return
	}
	if len(*dims) <= depth {
		*dims = append(*dims, v.Len())
	}
	for i := 0; i < v.Len(); i++ {
		flatten(v.Index(i), out, dims, depth+1)
	}
}

// c17Native: the typed native views of every element type present exactly the tensor's elements (and alias its storage).
func c17Native(c *core.Ctx) {
	for _, t := range model.AllTypes {
		tn := model.Name(t)
		suf := nativeSuffix[t.Kind()]
		for _, kind := range []string{"Vector", "Matrix", "Tensor3", "Select0", "Select1", "Select2", "Generic"} {
			var shape []int
			switch kind {
			case "Vector":
				shape = []int{5}
			case "Matrix":
				shape = []int{2, 3}
			default:
				shape = []int{2, 3, 2}
			}
			if kind == "Generic" {
				shape = []int{2, 3}
			}
			n := model.Size(shape)
			m := model.New(t, shape, gen.Ramp(t, n, 1))
			op, err := gen.Build(m, gen.LC, c.Rng)
			if err != nil {
				continue
			}
			ck := fmt.Sprintf("native/%s/%s", kind, tn)
			desc := map[string]interface{}{"kind": kind, "dtype": tn, "shape": shape}
			var out []reflect.Value
			name := kind + suf
			axis := -1
			if strings.HasPrefix(kind, "Select") {
				axis = int(kind[6] - '0')
				name = "Select" + suf
			}
			p, msg := core.Catch(func() {
				switch {
				case kind == "Generic":
					r, e := native.Matrix(op.D)
					out = []reflect.Value{reflect.ValueOf(r), reflect.ValueOf(&e).Elem()}
				case axis >= 0:
					out = reflect.ValueOf(nativeFns[name]).Call([]reflect.Value{reflect.ValueOf(op.D), reflect.ValueOf(axis)})
				default:
					out = reflect.ValueOf(nativeFns[name]).Call([]reflect.Value{reflect.ValueOf(op.D)})
				}
			})
			c.Eval(core.Sig("native", kind, tn), true)
			if p {
				c.Violation(core.Sig("native", kind, tn, "panic"), ck, desc, "a native view", msg)
				continue
			}
			if !out[1].IsNil() {
				c.Violation(core.Sig("native", kind, tn, "refused"), ck, desc, "a native view", fmt.Sprint(out[1].Interface()))
				continue
			}
			var flat []interface{}
			var dims []int
			rv := out[0]
			if rv.Kind() == reflect.Interface {
				rv = rv.Elem()
			}
			flatten(rv, &flat, &dims, 0)
			wantDims := shape
			if axis >= 0 {
				// Select(axis): the tensor seen as (prod shape[:axis+1]) rows of the remaining elements
				rows := 1
				for i := 0; i <= axis; i++ {
					rows *= shape[i]
				}
				wantDims = []int{rows, n / rows}
			}
			if !gen.ShapeEq(dims, wantDims) {
				c.Violation(core.Sig("native", kind, tn, "wrong-dims"), ck, desc, wantDims, dims)
				continue
			}
			okv := len(flat) == n
			for i := 0; okv && i < n; i++ {
				okv = model.Same(flat[i], m.V[i])
			}
			if !okv {
				c.Violation(core.Sig("native", kind, tn, "wrong-elements"), ck, desc, short(m.V), short(flat))
				continue
			}
			// aliasing: a write through the tensor is seen through the native view
			x := gen.Ramp(t, 1, 40)[0]
			last := make([]int, len(shape))
			for i := range last {
				last[i] = shape[i] - 1
			}
			op.D.SetAt(x, last...)
			flat, dims = nil, nil
			flatten(rv, &flat, &dims, 0)
			if !model.Same(flat[n-1], x) {
				c.Violation(core.Sig("native", kind, tn, "not-a-view"), ck, desc, x, flat[n-1])
			}
			if c.WantSample("native/" + kind) {
				c.Sample("native/"+kind, desc)
			}
		}
	}
	c.Control(!gen.ShapeEq([]int{2, 3}, []int{3, 2}))
}

// c17Construct: Ones / I / FromMat64 / ToMat64 per element type.
func c17Construct(c *core.Ctx) {
	var onesObs, eyeObs []xtObs
	for _, t := range model.AllTypes {
		tn := model.Name(t)
		if !model.IsNumber(t) {
			continue
		}
		dt := gen.Dtype(t)
		var d *tensor.Dense
		p, msg := core.Catch(func() { d = tensor.Ones(dt, 2, 3) })
		c.Eval(core.Sig("Ones", tn), true)
		if p {
			c.Violation(core.Sig("Ones", tn, "panic"), "Ones/"+tn, map[string]interface{}{"dtype": tn}, "a tensor of ones", msg)
		} else if m, err := gen.ReadAll(d); err != nil || m.T != t {
			c.Violation(core.Sig("Ones", tn, "wrong-type"), "Ones/"+tn, map[string]interface{}{"dtype": tn}, tn, fmt.Sprint(err))
		} else {
			for _, v := range m.V {
				if !model.Same(v, model.One(t)) {
					c.Violation(core.Sig("Ones", tn, "wrong-values"), "Ones/"+tn, map[string]interface{}{"dtype": tn}, "ones", short(m.V))
					break
				}
			}
			onesObs = append(onesObs, xtObs{t: t, vals: carriers(m.V), aux: shapeStr(m.Shape)})
		}
		for _, k := range []int{0, 1, -1} {
			var e *tensor.Dense
			p, msg := core.Catch(func() { e = tensor.I(dt, 3, 4, k) })
			ck := fmt.Sprintf("I/%s/k=%d", tn, k)
			c.Eval(core.Sig("I", tn, fmt.Sprint(k)), true)
			if p {
				c.Violation(core.Sig("I", tn, "panic"), ck, map[string]interface{}{"dtype": tn, "k": k}, "an identity", msg)
				continue
			}
			m, err := gen.ReadAll(e)
			if err != nil || m.T != t {
				c.Violation(core.Sig("I", tn, "wrong-type"), ck, map[string]interface{}{"dtype": tn, "k": k}, tn, fmt.Sprint(err))
				continue
			}
			bad := false
			model.Each([]int{3, 4}, func(co []int, r int) {
				want := model.Zero(t)
				if co[1]-co[0] == k {
					want = model.One(t)
				}
				if !model.Same(m.V[r], want) {
					bad = true
				}
			})
			if bad {
				c.Violation(core.Sig("I", tn, "wrong-values"), ck, map[string]interface{}{"dtype": tn, "k": k}, "ones on diagonal k", short(m.V))
			}
			if k == 1 {
				eyeObs = append(eyeObs, xtObs{t: t, vals: carriers(m.V), aux: shapeStr(m.Shape)})
			}
		}
	}
	xtAgree(c, "Ones", "Ones", map[string]interface{}{"op": "Ones(2,3)"}, onesObs)
	xtAgree(c, "I", "I(3,4,1)", map[string]interface{}{"op": "I(3,4,1)"}, eyeObs)
	c.Control(c17Deviants([]xtObs{{t: model.TF32, vals: []complex128{1}}, {t: model.TF64, vals: []complex128{1}}, {t: model.TInt, vals: []complex128{0}}})[0] == model.TInt)
}

var errType = reflect.TypeOf((*error)(nil)).Elem()

// errFn wraps the typed x -> f(x) into a func(T) (T, error) that fails at the element equal to failAt (never, if failAt is nil).
func errFn(t reflect.Type, failAt interface{}) interface{} {
	plain, _ := applyFn(t)
	pv := reflect.ValueOf(plain)
	ft := reflect.FuncOf([]reflect.Type{t}, []reflect.Type{t, errType}, false)
	return reflect.MakeFunc(ft, func(in []reflect.Value) []reflect.Value {
		if failAt != nil && model.Same(in[0].Interface(), failAt) {
			return []reflect.Value{reflect.Zero(t), reflect.ValueOf(fmt.Errorf("refused element")).Convert(errType)}
		}
		out := pv.Call(in)
		return []reflect.Value{out[0], reflect.Zero(errType)}
	}).Interface()
}

// c17MapErr: Apply with an error-returning typed function, per element type: the same function at every coordinate when it
// never fails, an error handed back when it fails at some element.
func c17MapErr(c *core.Ctx) {
	shape := []int{2, 3}
	n := 6
	vi := []int64{3, 0, 5, 1, 6, 2}
	for _, lay := range []string{gen.LC, gen.LSS} {
		for _, mode := range []string{"safe", "unsafe", "reuse"} {
			var obs []xtObs
			for _, t := range model.AllTypes {
				tn := model.Name(t)
				vals := gen.Ramp(t, n, 1)
				if model.IsNumber(t) {
					vals = fromInts(t, vi)
				}
				_, mdl := applyFn(t)
				if mdl == nil {
					mdl = incModel
				}
				for _, fail := range []bool{false, true} {
					op, err := gen.Build(model.New(t, shape, vals), lay, c.Rng)
					if err != nil || op.Layout != lay || op.Validate() != nil {
						continue
					}
					var opts []tensor.FuncOpt
					var dest *gen.Operand
					switch mode {
					case "unsafe":
						opts = append(opts, tensor.UseUnsafe())
					case "reuse":
						dest, _ = gen.Build(model.New(t, shape, gen.Canary(t, n, 99)), gen.LC, c.Rng)
						opts = append(opts, tensor.WithReuse(dest.D))
					}
					var failAt interface{}
					if fail {
						failAt = vals[4]
					}
					fn := errFn(t, failAt)
					var res tensor.Tensor
					var rerr error
					p, msg := core.Catch(func() { res, rerr = op.D.Apply(fn, opts...) })
					ck := fmt.Sprintf("map-err/%s/%s/%s/fail=%v", tn, lay, mode, fail)
					desc := map[string]interface{}{"dtype": tn, "layout": lay, "mode": mode, "function_fails": fail, "values": short(vals)}
					c.Eval(core.Sig("Apply(err-fn)", tn, lay, mode, fmt.Sprint(fail)), true)
					if c.WantSample("map-err") {
						c.Sample("map-err", desc)
					}
					if fail {
						if !p && rerr == nil {
							c.Violation(core.Sig("Apply(err-fn)", tn, lay, mode, "error-swallowed"), ck, desc, "the function's error", "nil error")
						}
						continue
					}
					if p || rerr != nil {
						if rerr != nil {
							msg = rerr.Error()
						}
						c.Violation(core.Sig("Apply(err-fn)", tn, lay, mode, "refused"), ck, desc, "a result", msg)
						continue
					}
					want := make([]interface{}, n)
					for i, v := range vals {
						want[i] = mdl(v)
					}
					rd, _ := res.(*tensor.Dense)
					if rd == nil {
						c.Violation(core.Sig("Apply(err-fn)", tn, lay, mode, "not-dense"), ck, desc, "*Dense", fmt.Sprintf("%T", res))
						continue
					}
					if e := gen.ReadMatchesBy(rd, model.New(t, shape, want), model.Equal); e != nil {
						c.Violation(core.Sig("Apply(err-fn)", tn, lay, mode, "wrong-values"), ck, desc, short(want), e.Error())
						continue
					}
					if model.IsNumber(t) {
						got, _ := gen.ReadAll(rd)
						obs = append(obs, xtObs{t: t, vals: carriers(got.V), aux: shapeStr(got.Shape)})
					}
				}
			}
			xtAgree(c, core.Sig("Apply(err-fn)", lay, mode), "map-err/"+lay+"/"+mode, map[string]interface{}{"layout": lay, "mode": mode, "values": vi}, obs)
		}
	}
	c.Control(c17Deviants([]xtObs{{t: model.TInt, vals: []complex128{4}}, {t: model.TInt8, vals: []complex128{4}}, {t: model.TF32, vals: []complex128{3}}})[0] == model.TF32)
}

// c17MaskedArg: Argmax/Argmin of masked tensors. No property fixes what a masked arg-reduction returns, so nothing is compared
// with a model; the element types must agree with each other (the same template instantiated per type).
func c17MaskedArg(c *core.Ctx) {
	for _, shape := range [][]int{{6}, {12}, {3, 4}, {3, 2, 2}} {
		n := model.Size(shape)
		vi := make([]int64, n)
		mask := make([]bool, n)
		for i := range vi {
			vi[i] = int64((i*5 + 3) % 4) // few distinct values: the extremes are tied among the unmasked elements
			mask[i] = i%3 == 1
		}
		for _, red := range []string{"Argmax", "Argmin"} {
			axes := []int{tensor.AllAxes}
			for ax := range shape {
				axes = append(axes, ax)
			}
			for _, ax := range axes {
				var obs []xtObs
				for _, t := range model.AllTypes {
					if !model.IsInt(t) && !model.IsFloat(t) {
						continue
					}
					op, err := gen.Build(model.New(t, shape, fromInts(t, vi)), gen.LC, c.Rng)
					if err != nil {
						continue
					}
					op.D.MaskFromSlice(append([]bool(nil), mask...))
					var res tensor.Tensor
					var rerr error
					p, _ := core.Catch(func() {
						if red == "Argmax" {
							res, rerr = op.D.Argmax(ax)
						} else {
							res, rerr = op.D.Argmin(ax)
						}
					})
					c.Eval(core.Sig("masked", red, model.Name(t), shapeStr(shape), fmt.Sprint(ax)), true)
					if p || rerr != nil {
						obs = append(obs, xtObs{t: t, aux: "refused"})
						continue
					}
					got, gerr := gen.ReadAll(res)
					if gerr != nil {
						obs = append(obs, xtObs{t: t, aux: "unreadable"})
						continue
					}
					obs = append(obs, xtObs{t: t, vals: carriers(got.V), aux: model.Name(got.T) + shapeStr(got.Shape)})
				}
				xtAgree(c, core.Sig("masked", red, fmt.Sprintf("rank%d", len(shape)), fmt.Sprint(ax)), fmt.Sprintf("masked-arg/%s/%s/%d", red, shapeStr(shape), ax),
					map[string]interface{}{"op": red, "shape": shape, "axis": ax, "values": vi, "mask": mask}, obs)
			}
		}
	}
	c.Control(c17Deviants([]xtObs{{t: model.TInt, vals: []complex128{4}}, {t: model.TInt8, vals: []complex128{4}}, {t: model.TF32, vals: []complex128{3}}})[0] == model.TF32)
}

var churnSink [][]byte

// churn makes the garbage collector run and the allocator hand freed small blocks out again.
func churn() {
	for i := 0; i < 3; i++ {
		runtime.GC()
		for j := 0; j < 20000; j++ {
			churnSink = append(churnSink, []byte("ZZ"+strconv.Itoa(j%97)))
		}
		churnSink = nil
	}
}

// c17Durable: the string specialisation keeps its elements. Strings are the one element type whose values live outside the
// tensor's storage; a result that held the right strings when the call returned must still hold them after garbage collections
// and further allocation (every string below is built at run time, so that only the tensor refers to it).
func c17Durable(c *core.Ctx) {
	fresh := func(i int) string { return "v" + strconv.Itoa(1000+i) }
	type prod struct {
		name string
		make func() (tensor.Tensor, []string, error)
	}
	src := func() *tensor.Dense {
		b := make([]string, 6)
		for i := range b {
			b[i] = fresh(i)
		}
		return tensor.New(tensor.WithShape(2, 3), tensor.WithBacking(b))
	}
	wantOf := func(f func(i int) string, n int) []string {
		out := make([]string, n)
		for i := range out {
			out[i] = f(i)
		}
		return out
	}
	prods := []prod{
		{"Apply", func() (tensor.Tensor, []string, error) {
			r, err := src().Apply(func(x string) string { return x + strconv.Itoa(len(x)) })
			return r, wantOf(func(i int) string { return fresh(i) + "5" }, 6), err
		}},
		{"New+SetAt", func() (tensor.Tensor, []string, error) {
			d := tensor.New(tensor.Of(tensor.String), tensor.WithShape(2, 3))
			for i := 0; i < 6; i++ {
				if err := d.SetAt(fresh(i), i/3, i%3); err != nil {
					return nil, nil, err
				}
			}
			return d, wantOf(fresh, 6), nil
		}},
		{"New+Memset", func() (tensor.Tensor, []string, error) {
			d := tensor.New(tensor.Of(tensor.String), tensor.WithShape(2, 3))
			err := d.Memset(fresh(7))
			return d, wantOf(func(int) string { return fresh(7) }, 6), err
		}},
		{"Clone", func() (tensor.Tensor, []string, error) {
			return src().Clone().(*tensor.Dense), wantOf(fresh, 6), nil
		}},
		{"Slice+Materialize", func() (tensor.Tensor, []string, error) {
			v, err := src().Slice(nil, tensor.S(0, 3, 2))
			if err != nil {
				return nil, nil, err
			}
			return v.Materialize(), []string{fresh(0), fresh(2), fresh(3), fresh(5)}, nil
		}},
		{"Repeat", func() (tensor.Tensor, []string, error) {
			r, err := tensor.Repeat(src(), 0, 2)
			return r, []string{fresh(0), fresh(1), fresh(2), fresh(0), fresh(1), fresh(2), fresh(3), fresh(4), fresh(5), fresh(3), fresh(4), fresh(5)}, err
		}},
		{"Concat", func() (tensor.Tensor, []string, error) {
			r, err := tensor.Concat(0, src(), src())
			return r, append(wantOf(fresh, 6), wantOf(fresh, 6)...), err
		}},
		{"Transpose", func() (tensor.Tensor, []string, error) {
			r, err := tensor.Transpose(src(), 1, 0)
			return r, []string{fresh(0), fresh(3), fresh(1), fresh(4), fresh(2), fresh(5)}, err
		}},
		{"FromScalar", func() (tensor.Tensor, []string, error) {
			return tensor.New(tensor.FromScalar(fresh(9))), []string{fresh(9)}, nil
		}},
	}
	for _, pr := range prods {
		var res tensor.Tensor
		var want []string
		var err error
		p, msg := core.Catch(func() { res, want, err = pr.make() })
		ck := "durable/Str/" + pr.name
		desc := map[string]interface{}{"dtype": "Str", "producer": pr.name}
		c.Eval(core.Sig("durable", "Str", pr.name), true)
		if p || err != nil {
			if err != nil {
				msg = err.Error()
			}
			c.Refused("durable:" + pr.name + ":" + short(msg))
			continue
		}
		read := func() []string {
			m, e := gen.ReadAll(res)
			if e != nil {
				return []string{"unreadable: " + e.Error()}
			}
			out := make([]string, len(m.V))
			for i, v := range m.V {
				out[i] = fmt.Sprint(v)
			}
			return out
		}
		before := read()
		if fmt.Sprint(before) != fmt.Sprint(want) {
			c.Violation(core.Sig("durable", "Str", pr.name, "wrong-at-return"), ck, desc, want, before)
			continue
		}
		churn()
		after := read()
		if fmt.Sprint(after) != fmt.Sprint(want) {
			c.Violation(core.Sig("durable", "Str", pr.name, "changed-after-gc"), ck, desc, want, after)
		}
		if c.WantSample("durable") {
			c.Sample("durable", desc)
		}
	}
	// negative control: the comparison notices a single replaced string
	c.Control(fmt.Sprint([]string{fresh(1), "ZZ3"}) != fmt.Sprint([]string{fresh(1), fresh(2)}))
}

// countingFn wraps the typed x -> x+1 of applyFn and counts its calls.
func countingFn(t reflect.Type, calls *int) interface{} {
	plain, _ := applyFn(t)
	pv := reflect.ValueOf(plain)
	ft := reflect.FuncOf([]reflect.Type{t}, []reflect.Type{t}, false)
	return reflect.MakeFunc(ft, func(in []reflect.Value) []reflect.Value {
		*calls++
		return pv.Call(in)
	}).Interface()
}

// c17MaskedMap: Apply on a masked tensor, per element type. What a mask means for Apply is one decision of the library (masked
// elements are skipped); every element type has to take it the same way: the same elements transformed, the same number of
// calls of the function.
func c17MaskedMap(c *core.Ctx) {
	shape := []int{2, 3}
	vi := []int64{3, 0, 5, 1, 6, 2}
	mask := []bool{false, true, false, false, true, false}
	for _, mode := range []string{"unsafe", "safe"} {
		var obs []xtObs
		for _, t := range model.AllTypes {
			if !model.IsNumber(t) {
				continue
			}
			op, err := gen.Build(model.New(t, shape, fromInts(t, vi)), gen.LC, c.Rng)
			if err != nil {
				continue
			}
			op.D.MaskFromSlice(append([]bool(nil), mask...))
			calls := 0
			fn := countingFn(t, &calls)
			var opts []tensor.FuncOpt
			if mode == "unsafe" {
				opts = append(opts, tensor.UseUnsafe())
			}
			var res tensor.Tensor
			var rerr error
			p, _ := core.Catch(func() { res, rerr = op.D.Apply(fn, opts...) })
			c.Eval(core.Sig("masked-Apply", model.Name(t), mode), true)
			if p || rerr != nil {
				obs = append(obs, xtObs{t: t, aux: "refused"})
				continue
			}
			rd, _ := res.(*tensor.Dense)
			if rd == nil {
				obs = append(obs, xtObs{t: t, aux: "not-dense"})
				continue
			}
			// raw values (masked positions included): read the storage, not through a masked accessor
			raw := model.FromSlice(rd.Data())
			obs = append(obs, xtObs{t: t, vals: carriers(raw), aux: fmt.Sprintf("calls=%d masked=%v ", calls, rd.IsMasked())})
		}
		xtAgree(c, core.Sig("masked-Apply", mode), "masked-map/"+mode, map[string]interface{}{"values": vi, "mask": mask, "mode": mode}, obs)
		if c.WantSample("masked-map") {
			c.Sample("masked-map", map[string]interface{}{"values": vi, "mask": mask, "mode": mode})
		}
	}
	c.Control(c17Deviants([]xtObs{{t: model.TInt, vals: []complex128{4}, aux: "calls=4"}, {t: model.TInt8, vals: []complex128{4}, aux: "calls=4"}, {t: model.TUint8, vals: []complex128{4}, aux: "calls=6"}})[0] == model.TUint8)
}

// c17ReduceOrder: the generic Reduce with a NON-commutative function, on every element type incl. strings, along every axis:
// fold(acc, x) must be called with the accumulator on the left for every type. Numeric types fold a*10+b over digits, strings
// concatenate the same digits; the results are compared as digit strings.
func c17ReduceOrder(c *core.Ctx) {
	digitFn := func(t reflect.Type) interface{} {
		ft := reflect.FuncOf([]reflect.Type{t, t}, []reflect.Type{t}, false)
		return reflect.MakeFunc(ft, func(in []reflect.Value) []reflect.Value {
			a, b := in[0].Interface(), in[1].Interface()
			if t.Kind() == reflect.String {
				return []reflect.Value{reflect.ValueOf(a.(string) + b.(string))}
			}
			ten, _ := model.Bin("Mul", a, model.FromInt(t, 10))
			r, _ := model.Bin("Add", ten, b)
			return []reflect.Value{reflect.ValueOf(r)}
		}).Interface()
	}
	types := []reflect.Type{model.TInt32, model.TInt64, model.TUint32, model.TF64, model.TStr}
	for _, shape := range [][]int{{2, 3}, {2, 3, 2}, {2, 2, 2, 2}} {
		n := model.Size(shape)
		for ax := range shape {
			var obs []xtObs
			for _, t := range types {
				vals := make([]interface{}, n)
				for i := range vals {
					d := int64(1 + (i*7+3)%9) // no palindromes along any axis
					if t.Kind() == reflect.String {
						vals[i] = fmt.Sprint(d)
					} else {
						vals[i] = model.FromInt(t, d)
					}
				}
				op, err := gen.Build(model.New(t, shape, vals), gen.LC, c.Rng)
				if err != nil {
					continue
				}
				def := model.Zero(t)
				var res tensor.Tensor
				var rerr error
				p, _ := core.Catch(func() { res, rerr = op.D.Reduce(digitFn(t), ax, def) })
				c.Eval(core.Sig("Reduce-order", model.Name(t), shapeStr(shape), fmt.Sprint(ax)), true)
				if p || rerr != nil {
					c.Refused("Reduce-order:" + model.Name(t))
					continue
				}
				got, gerr := gen.ReadAll(res)
				if gerr != nil {
					continue
				}
				// as digit strings (the leading default 0 of the numeric fold contributes nothing; strings start from "")
				ds := make([]complex128, len(got.V))
				for i, v := range got.V {
					str := fmt.Sprint(v)
					if t.Kind() != reflect.String {
						str = fmt.Sprint(int64(model.ToFloat(v)))
					}
					var x float64
					fmt.Sscan(str, &x)
					ds[i] = complex(x, 0)
				}
				obs = append(obs, xtObs{t: t, vals: ds, aux: shapeStr(got.Shape)})
			}
			xtAgree(c, core.Sig("Reduce-order", fmt.Sprintf("rank%d", len(shape)), fmt.Sprint(ax)), fmt.Sprintf("reduce-order/%s/%d", shapeStr(shape), ax),
				map[string]interface{}{"shape": shape, "axis": ax, "function": "acc*10+x (strings: acc+x)"}, obs)
		}
	}
	c.Control(c17Deviants([]xtObs{{t: model.TInt32, vals: []complex128{159}}, {t: model.TInt64, vals: []complex128{159}}, {t: model.TStr, vals: []complex128{951}}})[0] == model.TStr)
}

// c17SoftmaxTwins: the softmax family is written out twice by hand, once per float type (last-axis and inner-axis kernels,
// forward and gradient). The float32 twin has to compute what the float64 twin computes, on every shape class and axis.
func c17SoftmaxTwins(c *core.Ctx) {
	shapes := [][]int{{4}, {2, 3}, {3, 2}, {2, 2, 3}, {2, 3, 2}, {3, 2, 2}, {2, 3, 4}}
	if c.Tier == "thorough" {
		shapes = append(shapes, []int{1, 3}, []int{3, 1}, []int{2, 1, 3}, []int{2, 2, 2, 3}, []int{3, 2, 2, 2})
	}
	type op struct {
		name string
		run  func(x, g tensor.Tensor, axis int) (tensor.Tensor, error)
	}
	ops := []op{
		{"SoftMax", func(x, g tensor.Tensor, axis int) (tensor.Tensor, error) { return tensor.SoftMax(x, axis) }},
		{"LogSoftMax", func(x, g tensor.Tensor, axis int) (tensor.Tensor, error) { return tensor.LogSoftMax(x, axis) }},
		{"SoftMaxB", func(x, g tensor.Tensor, axis int) (tensor.Tensor, error) {
			out, err := tensor.SoftMax(x, axis)
			if err != nil {
				return nil, err
			}
			return tensor.SoftMaxB(out, g, axis)
		}},
		{"LogSoftMaxB", func(x, g tensor.Tensor, axis int) (tensor.Tensor, error) {
			out, err := tensor.LogSoftMax(x, axis)
			if err != nil {
				return nil, err
			}
			return tensor.LogSoftMaxB(out, g, axis)
		}},
	}
	for _, shape := range shapes {
		n := model.Size(shape)
		for axis := 0; axis < len(shape); axis++ {
			for _, o := range ops {
				xi, gi := make([]int64, n), make([]int64, n)
				for i := range xi {
					xi[i] = int64(c.Rng.Intn(7)) - 3
					gi[i] = int64(c.Rng.Intn(5)) - 2
				}
				caseKey := fmt.Sprintf("softmax-twins/%s/%s/axis%d", o.name, shapeStr(shape), axis)
				c.Begin(caseKey) // a fault inside the kernels' worker goroutines ends the process: the open case names it
				results := map[reflect.Type][]float64{}
				refused := false
				for _, t := range []reflect.Type{model.TF64, model.TF32} {
					x, e1 := gen.Build(model.New(t, shape, fromInts(t, xi)), gen.LC, c.Rng)
					g, e2 := gen.Build(model.New(t, shape, fromInts(t, gi)), gen.LC, c.Rng)
					if e1 != nil || e2 != nil {
						refused = true
						break
					}
					var r tensor.Tensor
					var err error
					if p, _ := core.Catch(func() { r, err = o.run(x.D, g.D, axis) }); p || err != nil || r == nil {
						refused = true
						break
					}
					m, rerr := gen.ReadAll(r)
					if rerr != nil || !gen.ShapeEq(m.Shape, shape) {
						c.Violation(core.Sig("softmax-twins", o.name, model.Name(t), "result-shape"), caseKey, map[string]interface{}{"shape": shape, "axis": axis}, shapeStr(shape), fmt.Sprint(rerr))
						refused = true
						break
					}
					vals := make([]float64, len(m.V))
					for i, v := range m.V {
						vals[i] = model.ToFloat(v)
					}
					results[t] = vals
				}
				c.Eval(core.Sig("softmax-twins", o.name, shapeStr(shape), fmt.Sprint(axis)), true)
				if refused {
					c.Refused("softmax-twins:" + o.name)
					continue
				}
				a, b := results[model.TF64], results[model.TF32]
				for i := range a {
					if d := math.Abs(a[i] - b[i]); d > 1e-4*(1+math.Abs(a[i])) {
						lastOrInner := "inner-axis"
						if axis == len(shape)-1 {
							lastOrInner = "last-axis"
						}
						c.Violation(core.Sig("softmax-twins", o.name, lastOrInner, "float32-differs-from-float64"), caseKey,
							map[string]interface{}{"operation": o.name, "shape": shape, "axis": axis, "x": xi, "grad": gi}, short(a), short(b))
						break
					}
				}
			}
		}
	}
	c.Control(math.Abs(1.0-1.001) > 1e-4*(1+1.0))
}
