package props

import (
	"fmt"
	"reflect"
	"strings"

	"gorgonia.org/tensor"
	"verifharness/core"
	"verifharness/gen"
	"verifharness/model"
)

// C05 — iterators visit every logical element exactly once, in logical order.

func init() {
	register(&core.Prop{
		ID: "C05",
		Rule: "access patterns from every shape of rank 0-4 (all vector-like shapes with unit axes) under layouts {C,F,Fconv,T,S,SS,ST,TS}; drive scripts per pattern: forward to exhaustion and 3 calls beyond, reverse, Reset after every prefix length k, direction switch after every k (both ways), Coord tracking, NextValid/NextValidity on unmasked iterators; constructors FlatIteratorFromDense, t.Iterator(), NewIterator(ap). " +
			"Masked: EVERY mask over n<=8 elements (tier bound) on contiguous and lazily transposed tensors x scripts {NextValidity sweep, NextValid loop, NextInvalid loop, mixed random script}, forward and reverse. Multi-iterators over pairs/triples of equally shaped tensors with different strides (forward, reverse, reset). " +
			"Oracle: expected offset sequence = the harness' own offsets of the logical elements in row-major order, relative to the tensor's storage window; exactly-once follows from sequence equality. distinct_nontrivial counts distinct (iterator kind, script, layout, shape[, mask]) keys on patterns with more than one element.",
		Assume: []string{"the storage window start of a view is read from the tensor's data pointer, not inferred"},
		Groups: c05Groups,
		Flavours: func(tier string) []string {
			if tier == "thorough" {
				return []string{"plain", "noasm"}
			}
			return []string{"plain"}
		},
	})
}

var c05Layouts = []string{gen.LC, gen.LF, gen.LFconv, gen.LT, gen.LS, gen.LSS, gen.LST, gen.LTS}

func c05Shapes(tier string) [][]int {
	out := [][]int{{}, {1}, {2}, {5}}
	out = append(out, shapesOver(2, []int{1, 2, 3})...)
	out = append(out, shapesOver(3, []int{1, 2, 3})...)
	if tier == "thorough" {
		out = append(out, shapesOver(4, []int{1, 2, 3})...)
		out = append(out, []int{1, 5}, []int{5, 1}, []int{4, 5}, []int{1, 1, 5}, []int{1, 4, 1, 1}, []int{5, 4, 3}, []int{2, 5, 1, 3})
	} else {
		out = append(out, shapesOver(4, []int{1, 2})...)
		out = append(out, []int{1, 5}, []int{5, 1}, []int{4, 5}, []int{1, 4, 1, 1}, []int{3, 2, 3, 2}, []int{1, 1, 1, 4})
	}
	return out
}

func c05Groups(tier string) []core.Group {
	var gs []core.Group
	for _, lay := range c05Layouts {
		lay := lay
		gs = append(gs, core.Group{Key: "flat/" + lay, Run: func(c *core.Ctx) {
			for _, shape := range c05Shapes(c.Tier) {
				c05Flat(c, lay, shape)
			}
		}})
	}
	maxN := 6
	if tier == "thorough" {
		maxN = 8
	}
	for _, shape := range [][]int{{}, {1}, {3}, {6}, {8}, {3, 1}, {1, 4}, {2, 3}, {4, 2}, {2, 2, 2}, {1, 3, 2}, {2, 1, 3}} {
		if model.Size(shape) > maxN {
			continue
		}
		for _, lay := range []string{gen.LC, gen.LT} {
			shape, lay := shape, lay
			gs = append(gs, core.Group{Key: fmt.Sprintf("masked/%s/%s", lay, shapeStr(shape)), Run: func(c *core.Ctx) { c05Masked(c, lay, shape) }})
		}
	}
	for _, a := range c05Layouts {
		a := a
		gs = append(gs, core.Group{Key: "mult/" + a, Run: func(c *core.Ctx) { c05Mult(c, a) }})
	}
	for _, a := range []string{gen.LC, gen.LT, gen.LS, gen.LF} {
		a := a
		gs = append(gs, core.Group{Key: "mult-wide/" + a, Run: func(c *core.Ctx) { c05MultWide(c, a) }})
	}
	return gs
}

// windowStart is the index, in the root backing, of the first element of d's storage window.
func windowStart(op *gen.Operand) int {
	es := int(op.M.T.Size())
	if es == 0 {
		return 0
	}
	return int(op.D.Uintptr()-op.Root.Uintptr()) / es
}

// expectedOffsets are the offsets (relative to the tensor's window) of the logical elements in row-major order.
func expectedOffsets(op *gen.Operand) []int {
	ws := windowStart(op)
	out := make([]int, len(op.Off))
	for r, o := range op.Off {
		out[r] = o - ws
	}
	return out
}

func drain(it tensor.Iterator, max int) (seq []int, err error) {
	for i := 0; i < max+4; i++ {
		var x int
		x, err = it.Next()
		if err != nil {
			return seq, err
		}
		seq = append(seq, x)
	}
	return seq, nil
}

func intsEq(a, b []int) bool {
	if len(a) != len(b) {
		return false
	}
	for i := range a {
		if a[i] != b[i] {
			return false
		}
	}
	return true
}

func reversed(a []int) []int {
	out := make([]int, len(a))
	for i := range a {
		out[len(a)-1-i] = a[i]
	}
	return out
}

func c05Operand(c *core.Ctx, lay string, shape []int, t reflect.Type) *gen.Operand {
	m := model.New(t, shape, gen.Ramp(t, model.Size(shape), 1))
	op, err := gen.Build(m, lay, c.Rng)
	if err != nil {
		c.Inconclusive("operand-precondition:" + lay)
		return nil
	}
	if op.Layout != lay {
		return nil
	}
	if err := op.Validate(); err != nil {
		c.Inconclusive("operand-precondition:" + lay)
		return nil
	}
	return op
}

func c05Flat(c *core.Ctx, lay string, shape []int) {
	op := c05Operand(c, lay, shape, model.TInt32)
	if op == nil {
		return
	}
	want := expectedOffsets(op)
	n := len(want)
	sc := shapeClass(shape)
	nontrivial := n > 1
	desc := func(script string) map[string]interface{} {
		return map[string]interface{}{"recipe": op.Recipe, "script": script, "strides": op.D.Strides()}
	}
	caseKey := func(script string) string { return fmt.Sprintf("flat/%s/%s/%s", lay, shapeStr(shape), script) }
	viol := func(kind, script, symptom string, w, g interface{}) {
		c.Violation(core.Sig(kind, script, lay, sc, symptom), caseKey(script), desc(script), w, g)
	}
	mk := map[string]func() tensor.Iterator{
		"FlatIteratorFromDense": func() tensor.Iterator { return tensor.FlatIteratorFromDense(op.D) },
		"Iterator()":            func() tensor.Iterator { return op.D.Iterator() },
		"NewIterator(ap)":       func() tensor.Iterator { return tensor.NewIterator(op.D.Info()) },
	}
	if c.WantSample("flat/" + lay) {
		c.Sample("flat/"+lay, map[string]interface{}{"recipe": op.Recipe, "expected_offsets": want, "scripts": "forward+beyond, reverse, reset@k, switch@k, coord, NextValid"})
	}
	for _, kind := range []string{"FlatIteratorFromDense", "Iterator()", "NewIterator(ap)"} {
		kind := kind
		run := func(script string, f func(it tensor.Iterator) (string, interface{}, interface{})) {
			c.Eval(core.Sig(kind, script, lay, shapeStr(shape)), nontrivial)
			var sym string
			var w, g interface{}
			p, msg := core.Catch(func() { sym, w, g = f(mk[kind]()) })
			if p {
				viol(kind, script, "panic", "offsets", msg)
				return
			}
			if sym != "" {
				viol(kind, script, sym, w, g)
			}
		}
		run("forward", func(it tensor.Iterator) (string, interface{}, interface{}) {
			seq, err := drain(it, n)
			if err == nil {
				return "no-exhaustion", want, seq
			}
			if !intsEq(seq, want) {
				return "wrong-sequence", want, seq
			}
			for k := 0; k < 3; k++ {
				if x, e := it.Next(); e == nil {
					return "yields-after-exhaustion", "error", x
				}
			}
			if !it.Done() {
				return "done-not-reported", true, false
			}
			return "", nil, nil
		})
		run("reverse", func(it tensor.Iterator) (string, interface{}, interface{}) {
			it.SetReverse()
			seq, err := drain(it, n)
			if err == nil {
				return "no-exhaustion", reversed(want), seq
			}
			if !intsEq(seq, reversed(want)) {
				return "wrong-sequence", reversed(want), seq
			}
			return "", nil, nil
		})
		if kind != "FlatIteratorFromDense" && c.Tier != "thorough" {
			continue
		}
		for k := 0; k <= n; k++ {
			k := k
			run("reset@k", func(it tensor.Iterator) (string, interface{}, interface{}) {
				for i := 0; i < k; i++ {
					it.Next()
				}
				it.Reset()
				seq, _ := drain(it, n)
				if !intsEq(seq, want) {
					return "wrong-sequence", want, fmt.Sprintf("after %d steps + Reset: %v", k, seq)
				}
				return "", nil, nil
			})
			run("reverse-reset@k", func(it tensor.Iterator) (string, interface{}, interface{}) {
				it.SetReverse()
				for i := 0; i < k; i++ {
					it.Next()
				}
				it.Reset()
				seq, _ := drain(it, n)
				if !intsEq(seq, reversed(want)) {
					return "wrong-sequence", reversed(want), fmt.Sprintf("after %d steps + Reset: %v", k, seq)
				}
				return "", nil, nil
			})
			run("switch-fwd-rev@k", func(it tensor.Iterator) (string, interface{}, interface{}) {
				for i := 0; i < k; i++ {
					it.Next()
				}
				it.SetReverse()
				seq, _ := drain(it, n)
				if !intsEq(seq, reversed(want)) {
					return "wrong-sequence", reversed(want), fmt.Sprintf("after %d forward steps + SetReverse: %v", k, seq)
				}
				return "", nil, nil
			})
			run("switch-rev-fwd@k", func(it tensor.Iterator) (string, interface{}, interface{}) {
				it.SetReverse()
				for i := 0; i < k; i++ {
					it.Next()
				}
				it.SetForward()
				seq, _ := drain(it, n)
				if !intsEq(seq, want) {
					return "wrong-sequence", want, fmt.Sprintf("after %d reverse steps + SetForward: %v", k, seq)
				}
				return "", nil, nil
			})
		}
		run("coord", func(it tensor.Iterator) (string, interface{}, interface{}) {
			// after the k-th Next (k+1 < size) Coord() is the coordinate of element k+1
			for k := 0; k+1 < n; k++ {
				if _, err := it.Next(); err != nil {
					return "early-exhaustion", n, k
				}
				wc := model.Unrank(shape, k+1)
				gc := it.Coord()
				if !intsEq(wc, gc) {
					return "coord-wrong", fmt.Sprintf("after element %d: %v", k, wc), fmt.Sprint(gc)
				}
			}
			return "", nil, nil
		})
		run("nextvalid", func(it tensor.Iterator) (string, interface{}, interface{}) {
			var seq []int
			for i := 0; i < n+3; i++ {
				x, step, err := it.NextValid()
				if err != nil {
					break
				}
				if n > 1 && step != 1 {
					return "skip-count-wrong", 1, step
				}
				seq = append(seq, x)
			}
			if !intsEq(seq, want) {
				return "wrong-sequence", want, seq
			}
			it.Reset()
			seq = seq[:0]
			for i := 0; i < n+3; i++ {
				x, valid, err := it.NextValidity()
				if err != nil {
					break
				}
				if !valid {
					return "unmasked-invalid", true, false
				}
				seq = append(seq, x)
			}
			if !intsEq(seq, want) {
				return "wrong-sequence", want, seq
			}
			return "", nil, nil
		})
	}
	// negative control
	if n > 1 {
		seq, _ := drain(tensor.FlatIteratorFromDense(op.D), n)
		bad := append([]int(nil), want...)
		bad[0], bad[n-1] = bad[n-1], bad[0]
		c.Control(!intsEq(seq, bad))
	}
}

// ---- masked ----

func c05Masked(c *core.Ctx, lay string, shape []int) {
	n := model.Size(shape)
	sc := shapeClass(shape)
	for bits := 0; bits < 1<<uint(n); bits++ {
		op := c05Operand(c, lay, shape, model.TF64)
		if op == nil {
			return
		}
		// mask over storage offsets of the root tensor (root == operand window for C and T)
		mask := make([]bool, n)
		for i := range mask {
			mask[i] = bits&(1<<uint(i)) != 0
		}
		var d *tensor.Dense = op.D
		p, msg := core.Catch(func() { d.MaskFromSlice(mask) })
		if p {
			c.Inconclusive("mask-attach-panic:" + msg)
			return
		}
		if !d.IsMasked() {
			c.Inconclusive("mask-not-attached")
			return
		}
		off := expectedOffsets(op)
		// logical validity, position by position
		valid := make([]bool, n)
		for r := range valid {
			valid[r] = !mask[off[r]]
		}
		desc := map[string]interface{}{"layout": lay, "shape": shape, "mask_by_storage_offset": mask}
		caseKey := fmt.Sprintf("masked/%s/%s/mask=%0*b", lay, shapeStr(shape), n, bits)
		nontrivial := n > 1
		viol := func(script, symptom string, w, g interface{}) {
			c.Violation(core.Sig("FlatMaskedIterator", script, lay, sc, symptom), caseKey+"/"+script, desc, w, g)
		}
		if bits == 5%(1<<uint(n)) && c.WantSample("masked/"+lay) {
			c.Sample("masked/"+lay, desc)
		}
		for _, rev := range []bool{false, true} {
			dir := "fwd"
			order := make([]int, n) // positions in visiting order
			for i := range order {
				order[i] = i
			}
			mult := 1
			if rev {
				dir = "rev"
				for i := range order {
					order[i] = n - 1 - i
				}
				mult = -1
			}
			newIt := func() *tensor.FlatMaskedIterator {
				it := tensor.FlatMaskedIteratorFromDense(d)
				if rev {
					it.SetReverse()
				}
				return it
			}
			key := func(script string) string {
				return core.Sig("masked", script, dir, lay, shapeStr(shape), fmt.Sprint(bits))
			}
			// NextValidity sweep
			func() {
				c.Eval(key("validity"), nontrivial)
				pp, pm := core.Catch(func() {
					it := newIt()
					for k, pos := range order {
						i, v, err := it.NextValidity()
						if err != nil {
							viol("validity/"+dir, "early-exhaustion", n, k)
							return
						}
						if i != off[pos] || v != valid[pos] {
							viol("validity/"+dir, "wrong-pair", fmt.Sprint(off[pos], valid[pos]), fmt.Sprint(i, v))
							return
						}
					}
					if _, _, err := it.NextValidity(); err == nil {
						viol("validity/"+dir, "no-exhaustion", "error", "value")
					}
				})
				if pp {
					viol("validity/"+dir, "panic", "pairs", pm)
				}
			}()
			// NextValid / NextInvalid loops and a mixed script, against a position pointer
			for _, script := range []string{"valid", "invalid", "mixed"} {
				script := script
				c.Eval(key(script), nontrivial)
				pp, pm := core.Catch(func() {
					it := newIt()
					ptr := 0 // number of positions consumed
					for step := 0; step < 3*n+4; step++ {
						which := script
						if script == "mixed" {
							which = []string{"valid", "invalid", "next"}[c.Rng.Intn(3)]
						}
						switch which {
						case "next":
							i, err := it.Next()
							if ptr >= n {
								if err == nil {
									viol(script+"/"+dir, "no-exhaustion", "error", i)
								}
								return
							}
							if err != nil || i != off[order[ptr]] {
								viol(script+"/"+dir, "wrong-offset", off[order[ptr]], fmt.Sprint(i, err))
								return
							}
							ptr++
						default:
							wantValid := which == "valid"
							var i, cnt int
							var err error
							if wantValid {
								i, cnt, err = it.NextValid()
							} else {
								i, cnt, err = it.NextInvalid()
							}
							// model: advance until a position of the wanted validity
							q := ptr
							found := -1
							for q < n {
								pos := order[q]
								q++
								if valid[pos] == wantValid {
									found = pos
									break
								}
							}
							adv := q - ptr
							if found < 0 {
								if err == nil {
									viol(script+"/"+dir, "no-exhaustion", "error", i)
									return
								}
								if i != -1 {
									viol(script+"/"+dir, "index-at-exhaustion", -1, i)
									return
								}
								if cnt != mult*adv {
									viol(script+"/"+dir, "count-at-exhaustion", mult*adv, cnt)
								}
								return
							}
							if err != nil {
								viol(script+"/"+dir, "early-exhaustion", off[found], err.Error())
								return
							}
							if i != off[found] {
								viol(script+"/"+dir, "wrong-offset", off[found], i)
								return
							}
							if cnt != mult*adv {
								viol(script+"/"+dir, "skip-count-wrong", mult*adv, cnt)
								return
							}
							ptr = q
						}
					}
				})
				if pp {
					viol(script+"/"+dir, "panic", "indices", pm)
				}
			}
		}
		if bits == 1 && n > 1 {
			it := tensor.FlatMaskedIteratorFromDense(d)
			_, v, _ := it.NextValidity()
			c.Control(v == valid[0] && valid[0] != !valid[0])
		}
	}
	if n <= 1 {
		c.Control(true)
	}
}

// ---- multi-iterator ----

func c05Mult(c *core.Ctx, layA string) {
	shapes := [][]int{{3}, {4, 1}, {1, 4}, {2, 3}, {3, 2}, {3, 3}, {2, 3, 2}, {3, 2, 2}, {2, 2, 2, 2}, {1, 3, 2}, {2, 1, 3}}
	if c.Tier == "thorough" {
		shapes = append(shapes, []int{4, 5}, []int{3, 3, 3}, []int{2, 3, 4}, []int{3, 1, 2, 2}, []int{2, 3, 2, 3})
	}
	others := c05Layouts
	for _, shape := range shapes {
		for _, layB := range others {
			for _, third := range []string{"", gen.LC, gen.LT} {
				lays := []string{layA, layB}
				if third != "" {
					lays = append(lays, third)
				}
				c05MultCase(c, "mult/"+layA, lays, shape)
			}
		}
	}
	// negative control: the comparison must notice a wrong expectation
	if op := c05Operand(c, gen.LC, []int{2, 3}, model.TInt16); op != nil {
		it := tensor.MultIteratorFromDense(op.D, op.D)
		it.Next()
		it.Next()
		c.Control(it.LastIndex(1) != 0)
	}
}

// c05MultWide drives multi-iterators over operands with one long axis, so that the stride vectors of the operands are
// numerically far apart and numerically related ([2 1] against [1 r], [w 1] against [1 r], ...): the library shares one
// block of offsets between operands whose stride KEY is equal, and the key is a digest of the strides - two different
// stride vectors must never be served from one block, whatever the digest.
func c05MultWide(c *core.Ctx, layA string) {
	lo, hi, step := 6, 72, 1
	if c.Tier == "thorough" {
		hi = 136
	}
	wide := []string{gen.LC, gen.LT, gen.LS, gen.LSS, gen.LF}
	for r := lo; r <= hi; r += step {
		shapes := [][]int{{r, 2}, {2, r}}
		if r%3 == 0 || c.Tier == "thorough" {
			shapes = append(shapes, []int{r, 3}, []int{2, r, 2})
		}
		for _, shape := range shapes {
			for _, layB := range wide {
				lays := []string{layA, layB}
				c05MultCase(c, "mult-wide/"+layA, lays, shape)
				if layB == gen.LT {
					c05MultCase(c, "mult-wide/"+layA, []string{layA, layB, gen.LC}, shape)
				}
			}
		}
	}
}

func c05MultCase(c *core.Ctx, group string, lays []string, shape []int) {
	{
		{
			{
				var ops []*gen.Operand
				ok := true
				for _, l := range lays {
					op := c05Operand(c, l, shape, model.TInt16)
					if op == nil {
						ok = false
						break
					}
					ops = append(ops, op)
				}
				if !ok {
					return
				}
				n := model.Size(shape)
				wants := make([][]int, len(ops))
				dts := make([]tensor.DenseTensor, len(ops))
				distinct := false
				for i, op := range ops {
					wants[i] = expectedOffsets(op)
					dts[i] = op.D
					if i > 0 && !intsEq(wants[i], wants[0]) {
						distinct = true
					}
				}
				name := fmt.Sprint(lays)
				desc := map[string]interface{}{"layouts": lays, "shape": shape}
				for i, op := range ops {
					desc[fmt.Sprintf("strides%d", i)] = op.D.Strides()
				}
				caseKey := fmt.Sprintf("%s/%s/%s", strings.SplitN(group, "/", 2)[0], name, shapeStr(shape))
				if c.WantSample(group) {
					c.Sample(group, desc)
				}
				for _, script := range []string{"forward", "reverse", "reset"} {
					c.Eval(core.Sig("mult", script, name, shapeStr(shape)), distinct && n > 1)
					pp, pm := core.Catch(func() {
						it := tensor.MultIteratorFromDense(dts...)
						exp := func(j, k int) int { return wants[j][k] }
						if script == "reverse" {
							it.SetReverse()
							exp = func(j, k int) int { return wants[j][n-1-k] }
						}
						if script == "reset" {
							for k := 0; k < n/2; k++ {
								it.Next()
							}
							it.Reset()
						}
						for k := 0; k < n; k++ {
							if _, err := it.Next(); err != nil {
								c.Violation(core.Sig("MultIterator", script, "early-exhaustion"), caseKey+"/"+script, desc, n, k)
								return
							}
							for j := range ops {
								if got := it.LastIndex(j); got != exp(j, k) {
									sym := "operand-offset-differs-from-own-iterator"
									same := "different-strides"
									if gen.ShapeEq(ops[j].D.Strides(), ops[0].D.Strides()) {
										same = "same-strides"
									}
									c.Violation(core.Sig("MultIterator", script, sym, same), caseKey+"/"+script, desc,
										fmt.Sprintf("step %d operand %d offset %d", k, j, exp(j, k)), got)
									return
								}
							}
						}
						if _, err := it.Next(); err == nil {
							c.Violation(core.Sig("MultIterator", script, "no-exhaustion"), caseKey+"/"+script, desc, "error", "value")
						}
					})
					if pp {
						c.Violation(core.Sig("MultIterator", script, "panic"), caseKey+"/"+script, desc, "offsets", pm)
					}
				}
			}
		}
	}
}
