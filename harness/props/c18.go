package props

import (
	"bytes"
	"crypto/sha1"
	"fmt"
	"math/rand"
	"reflect"
	"runtime"
	"runtime/debug"
	"sort"
	"strings"
	"sync"
	"sync/atomic"
	"time"

	"gorgonia.org/tensor"
	"gorgonia.org/tensor/native"

	"verifharness/core"
	"verifharness/gen"
	"verifharness/model"
)

// C18 — concurrent use of distinct or read-only tensors is race-free and deterministic.
//
// Every goroutine runs a seeded program: every shared-read operation on every shared read-only tensor
// (class-complete, in its own order) interleaved with operations on private tensors. The program is first
// run alone (sequential oracle), then G goroutines run their programs together. Monitors:
//   - the race detector (race flavour; reports are parsed from its log by the parent),
//   - per-step result digests, concurrent vs alone,
//   - bit-identity and metadata identity of the shared tensors after the run,
//   - exclusive ownership of pooled metadata slices / tensors between borrow and return (pool hook trace).

func init() {
	register(&core.Prop{
		ID: "C18",
		Rule: "configurations G goroutines in {2,4,8,16} x GOMAXPROCS in {1,2,4,16} x repetitions; every goroutine executes every (shared-read operation, shared tensor) pair of the class list in a seeded order, interleaved with private-tensor operations (unsafe/reuse/incr arithmetic, in-place transposition, writes through views, Concat/Repeat/Stack, ReturnTensor, BorrowInts/ReturnInts); PRNG-driven runtime.Gosched at every pool event and between steps. Shared set: contiguous, lazily transposed and sliced tensors of float64/float32/int32/string/complex128, a masked tensor, vectors and matrices for the products. " +
			"Shared-read operations: At, Slice+read, iterator walk, Clone, Materialize, SafeT, Transpose copy, safe Add/Sub/Mul with tensors and with per-goroutine scalars on either side, Lt/Lte/Gt/ElEq with tensors and scalars, MinBetween/MaxBetween, Neg/Sqrt/Apply, Sum/Max/Argmax per axis and overall, Repeat/Concat/Stack, Inner/MatVecMul/MatMul/Outer/Dot in every rank dispatch, Eq, String and Format with five verbs, gob and npy encoding, native views, ToMat64. " +
			"Oracles: (1) no race report with a gorgonia.org/tensor frame (race build), (2) each step's digest equals the digest of the same step run alone, (3) shared tensors bit-identical with unchanged metadata afterwards, (4) no pooled array issued to a second owner before its return. distinct_nontrivial counts distinct (operation, shared tensor) pairs times configurations; evidence also reports the distinct operation pairs observed overlapping in time.",
		Assume:   []string{"operations that name a shared tensor as destination are outside the statement and are not generated on shared tensors"},
		Flavours: func(tier string) []string { return []string{"race", "plain"} },
		Groups:   c18Groups,
	})
}

func c18Groups(tier string) []core.Group {
	var gs []core.Group
	type cfg struct{ g, p, reps int }
	var cfgs []cfg
	if tier == "thorough" {
		for _, g := range []int{2, 4, 8, 16} {
			for _, p := range []int{1, 2, 4, 16} {
				cfgs = append(cfgs, cfg{g, p, 20})
			}
		}
	} else {
		cfgs = []cfg{{8, 1, 2}, {8, 4, 2}, {8, 16, 2}, {2, 2, 2}, {4, 16, 2}, {16, 4, 1}}
	}
	for _, cf := range cfgs {
		for r := 0; r < cf.reps; r++ {
			cf, r := cf, r
			gs = append(gs, core.Group{Key: fmt.Sprintf("G%d/P%d/rep%d", cf.g, cf.p, r), Run: func(c *core.Ctx) { c18Run(c, cf.g, cf.p) }})
		}
	}
	return gs
}

// ---- shared set ----

type c18Shared struct {
	name string
	op   *gen.Operand
	snap interface{}
	meta gen.Meta
	kind string // "mat" (3,4), "sq" (4,4), "vec" (4), "mat43" (4,3), "masked"
	t    reflect.Type
}

func c18Build(rng *rand.Rand) ([]*c18Shared, error) {
	var out []*c18Shared
	add := func(name string, t reflect.Type, shape []int, lay string, kind string, base int64) error {
		n := model.Size(shape)
		vals := gen.Ramp(t, n, base)
		op, err := gen.Build(model.New(t, shape, vals), lay, rng)
		if err != nil {
			return err
		}
		if err := op.Validate(); err != nil {
			return err
		}
		out = append(out, &c18Shared{name: name, op: op, kind: kind, t: t})
		return nil
	}
	specs := []struct {
		name  string
		t     reflect.Type
		shape []int
		lay   string
		kind  string
	}{
		{"f64C", model.TF64, []int{3, 4}, gen.LC, "mat"},
		{"f64T", model.TF64, []int{3, 4}, gen.LT, "mat"},
		{"f64S", model.TF64, []int{3, 4}, gen.LS, "mat"},
		{"f64SS", model.TF64, []int{3, 4}, gen.LSS, "mat"},
		{"f32C", model.TF32, []int{3, 4}, gen.LC, "mat"},
		{"f32T", model.TF32, []int{3, 4}, gen.LT, "mat"},
		{"i32C", model.TInt32, []int{3, 4}, gen.LC, "mat"},
		{"i32T", model.TInt32, []int{3, 4}, gen.LT, "mat"},
		{"i32S", model.TInt32, []int{3, 4}, gen.LS, "mat"},
		{"strC", model.TStr, []int{3, 4}, gen.LC, "mat"},
		{"strT", model.TStr, []int{3, 4}, gen.LT, "mat"},
		{"c128C", model.TC128, []int{3, 4}, gen.LC, "mat"},
		{"f64sq", model.TF64, []int{4, 4}, gen.LC, "sq"},
		{"f64sqT", model.TF64, []int{4, 4}, gen.LT, "sq"},
		{"f64vec", model.TF64, []int{4}, gen.LC, "vec"},
		{"f64vecS", model.TF64, []int{4}, gen.LSS, "vec"},
		{"f64m43", model.TF64, []int{4, 3}, gen.LC, "mat43"},
		{"f64m43T", model.TF64, []int{4, 3}, gen.LT, "mat43"},
		{"f32vec", model.TF32, []int{4}, gen.LC, "vec"},
		{"f32sq", model.TF32, []int{4, 4}, gen.LC, "sq"},
	}
	for i, s := range specs {
		if err := add(s.name, s.t, s.shape, s.lay, s.kind, int64(1+i)); err != nil {
			return nil, fmt.Errorf("%s: %v", s.name, err)
		}
	}
	// a masked tensor
	if err := add("f64masked", model.TF64, []int{3, 4}, gen.LC, "masked", 3); err != nil {
		return nil, err
	}
	m := out[len(out)-1]
	mask := make([]bool, 12)
	for i := range mask {
		mask[i] = i%4 == 1
	}
	m.op.D.MaskFromSlice(mask)
	for _, s := range out {
		s.snap = s.op.Snap()
		s.meta = gen.MetaOf(s.op.D)
	}
	return out, nil
}

// ---- digests ----

func digestTensor(t tensor.Tensor, err error) string {
	if err != nil {
		return "error: " + err.Error()
	}
	if t == nil || (reflect.ValueOf(t).Kind() == reflect.Ptr && reflect.ValueOf(t).IsNil()) {
		return "nil"
	}
	m, e := gen.ReadAll(t)
	if e != nil {
		return "unreadable: " + e.Error()
	}
	return fmt.Sprint(m.Shape, m.V)
}

func sha(b []byte) string { h := sha1.Sum(b); return fmt.Sprintf("%x", h[:8]) }

// ---- shared-read operations ----

type c18Env struct {
	g       int
	scalarF float64
	privF64 *tensor.Dense // a private (3,4) float64 operand
	privF32 *tensor.Dense
	privI32 *tensor.Dense
}

type c18ReadOp struct {
	name    string
	accepts func(s *c18Shared) bool
	run     func(s *c18Shared, e *c18Env) string
}

func isNum(s *c18Shared) bool   { return model.IsNumber(s.t) && s.kind != "masked" }
func isReal(s *c18Shared) bool  { return (model.IsFloat(s.t) || model.IsInt(s.t)) && s.kind != "masked" }
func isFloat(s *c18Shared) bool { return model.IsFloat(s.t) && s.kind != "masked" }
func anyT(s *c18Shared) bool    { return true }
func isMat(s *c18Shared) bool   { return len(s.op.M.Shape) == 2 }

func scalarOf(t reflect.Type, x float64) interface{} { return model.FromFloat(t, x) }

func c18ReadOps() []c18ReadOp {
	fmtOp := func(verb string) c18ReadOp {
		return c18ReadOp{"Format(" + verb + ")", anyT, func(s *c18Shared, e *c18Env) string { return fmt.Sprintf(verb, s.op.D) }}
	}
	bin := func(name string, f func(a, b interface{}, opts ...tensor.FuncOpt) (tensor.Tensor, error), acc func(*c18Shared) bool) []c18ReadOp {
		return []c18ReadOp{
			{name + "(X,X)", acc, func(s *c18Shared, e *c18Env) string { return digestTensor(f(s.op.D, s.op.D)) }},
			{name + "(X,scalar)", acc, func(s *c18Shared, e *c18Env) string { return digestTensor(f(s.op.D, scalarOf(s.t, e.scalarF))) }},
			{name + "(scalar,X)", acc, func(s *c18Shared, e *c18Env) string { return digestTensor(f(scalarOf(s.t, e.scalarF), s.op.D)) }},
		}
	}
	ops := []c18ReadOp{
		{"At", anyT, func(s *c18Shared, e *c18Env) string {
			var out []interface{}
			model.Each(s.op.M.Shape, func(c []int, r int) {
				v, err := s.op.D.At(c...)
				if err != nil {
					out = append(out, err.Error())
				} else {
					out = append(out, v)
				}
			})
			return fmt.Sprint(out)
		}},
		{"Slice+read", anyT, func(s *c18Shared, e *c18Env) string {
			v, err := s.op.D.Slice(tensor.S(0, 1))
			if len(s.op.M.Shape) == 2 {
				v, err = s.op.D.Slice(nil, tensor.S(1, 3))
			}
			return digestTensor(v, err)
		}},
		{"Iterator", anyT, func(s *c18Shared, e *c18Env) string {
			it := tensor.IteratorFromDense(s.op.D)
			var idx []int
			for i, err := it.Next(); err == nil; i, err = it.Next() {
				idx = append(idx, i)
			}
			return fmt.Sprint(idx)
		}},
		{"MultIterator(X,private)", func(s *c18Shared) bool { return s.kind == "mat" && s.t == model.TF64 }, func(s *c18Shared, e *c18Env) string {
			// the multi-tensor iterator: built concurrently by every goroutine over a shared and a private tensor
			it := tensor.NewMultIterator(s.op.D.Info(), e.privF64.Info())
			var idx []int
			for {
				_, err := it.Next()
				if err != nil {
					break
				}
				idx = append(idx, it.LastIndex(0), it.LastIndex(1))
				if len(idx) > 100 {
					break
				}
			}
			return fmt.Sprint(idx)
		}},
		{"Clone", anyT, func(s *c18Shared, e *c18Env) string { return digestTensor(s.op.D.Clone().(*tensor.Dense), nil) }},
		{"Materialize", anyT, func(s *c18Shared, e *c18Env) string { return digestTensor(s.op.D.Materialize(), nil) }},
		{"SafeT", isMat, func(s *c18Shared, e *c18Env) string { r, err := s.op.D.SafeT(); return digestTensor(r, err) }},
		{"tensor.Transpose", isMat, func(s *c18Shared, e *c18Env) string { return digestTensor(tensor.Transpose(s.op.D, 1, 0)) }},
		{"tensor.T", isMat, func(s *c18Shared, e *c18Env) string { return digestTensor(tensor.T(s.op.D)) }},
		{"Add(X,private)", func(s *c18Shared) bool { return s.kind == "mat" && (s.t == model.TF64 || s.t == model.TF32 || s.t == model.TInt32) }, func(s *c18Shared, e *c18Env) string {
			p := map[reflect.Type]*tensor.Dense{model.TF64: e.privF64, model.TF32: e.privF32, model.TInt32: e.privI32}[s.t]
			return digestTensor(tensor.Add(s.op.D, p))
		}},
		{"Mul(private,X,reuse private)", func(s *c18Shared) bool { return s.kind == "mat" && s.t == model.TF64 }, func(s *c18Shared, e *c18Env) string {
			r := tensor.New(tensor.Of(tensor.Float64), tensor.WithShape(3, 4))
			return digestTensor(tensor.Mul(e.privF64, s.op.D, tensor.WithReuse(r)))
		}},
		{"Neg", isReal, func(s *c18Shared, e *c18Env) string {
			if !model.IsFloat(s.t) && !model.IsSigned(s.t) {
				return "n/a"
			}
			return digestTensor(tensor.Neg(s.op.D))
		}},
		{"Sqrt", isFloat, func(s *c18Shared, e *c18Env) string { return digestTensor(tensor.Sqrt(s.op.D)) }},
		{"Apply", anyT, func(s *c18Shared, e *c18Env) string { fn, _ := applyFn(s.t); return digestTensor(s.op.D.Apply(fn)) }},
		{"Sum()", func(s *c18Shared) bool { return model.IsNumber(s.t) }, func(s *c18Shared, e *c18Env) string { return digestTensor(s.op.D.Sum()) }},
		{"Sum(0)", func(s *c18Shared) bool { return model.IsNumber(s.t) }, func(s *c18Shared, e *c18Env) string { return digestTensor(s.op.D.Sum(0)) }},
		{"Max(last)", isReal, func(s *c18Shared, e *c18Env) string { return digestTensor(s.op.D.Max(len(s.op.M.Shape) - 1)) }},
		{"Argmax(0)", isReal, func(s *c18Shared, e *c18Env) string { return digestTensor(s.op.D.Argmax(0)) }},
		{"Argmin(AllAxes)", isReal, func(s *c18Shared, e *c18Env) string { return digestTensor(s.op.D.Argmin(tensor.AllAxes)) }},
		{"Repeat", anyT, func(s *c18Shared, e *c18Env) string { return digestTensor(tensor.Repeat(s.op.D, 0, 2)) }},
		{"Concat", anyT, func(s *c18Shared, e *c18Env) string { return digestTensor(tensor.Concat(0, s.op.D, s.op.D)) }},
		{"Stack", func(s *c18Shared) bool { return s.kind != "masked" }, func(s *c18Shared, e *c18Env) string { return digestTensor(tensor.Stack(0, s.op.D, s.op.D)) }},
		{"Eq", anyT, func(s *c18Shared, e *c18Env) string { return fmt.Sprint(s.op.D.Eq(s.op.D), s.op.D.Eq(e.privF64)) }},
		{"String", anyT, func(s *c18Shared, e *c18Env) string { return s.op.D.String() }},
		fmtOp("%v"), fmtOp("%.3f"), fmtOp("%8.2f"), fmtOp("%+v"), fmtOp("%#v"), fmtOp("%-6.1f"), fmtOp("%s"),
		{"GobEncode", func(s *c18Shared) bool { return s.kind != "masked" }, func(s *c18Shared, e *c18Env) string {
			b, err := s.op.D.GobEncode()
			if err != nil {
				return "error: " + err.Error()
			}
			return sha(b)
		}},
		{"WriteNpy", isNum, func(s *c18Shared, e *c18Env) string {
			var buf bytes.Buffer
			if err := s.op.D.WriteNpy(&buf); err != nil {
				return "error: " + err.Error()
			}
			return sha(buf.Bytes())
		}},
		{"native", func(s *c18Shared) bool { return s.t == model.TF64 && isMat(s) && s.op.Layout == gen.LC && s.kind != "masked" }, func(s *c18Shared, e *c18Env) string {
			m, err := native.MatrixF64(s.op.D)
			return fmt.Sprint(m, err)
		}},
		{"ToMat64", func(s *c18Shared) bool { return isFloat(s) && isMat(s) }, func(s *c18Shared, e *c18Env) string {
			m, err := tensor.ToMat64(s.op.D)
			if err != nil {
				return "error: " + err.Error()
			}
			return fmt.Sprint(m.RawMatrix().Data)
		}},
		{"Info", anyT, func(s *c18Shared, e *c18Env) string {
			d := s.op.D
			return fmt.Sprint(d.Shape(), d.Strides(), d.Dtype(), d.DataOrder(), d.Size(), d.DataSize(), d.IsMasked(), d.IsView(), d.IsMaterializable(), d.RequiresIterator())
		}},
		{"Masked-reads", func(s *c18Shared) bool { return s.kind == "masked" }, func(s *c18Shared, e *c18Env) string {
			d := s.op.D
			f, ferr := d.Filled(-1.0)
			return fmt.Sprint(d.MaskedCount(), d.NonMaskedCount(), d.MaskedAny(), d.MaskedAll(), f, ferr)
		}},
	}
	ops = append(ops, bin("Add", tensor.Add, isNum)...)
	ops = append(ops, bin("Sub", tensor.Sub, isNum)...)
	ops = append(ops, bin("Mul", tensor.Mul, isNum)...)
	ops = append(ops, bin("Lt", tensor.Lt, isReal)...)
	ops = append(ops, bin("Lte", tensor.Lte, isReal)...)
	ops = append(ops, bin("Gt", tensor.Gt, isReal)...)
	ops = append(ops, bin("Gte", tensor.Gte, isReal)...)
	ops = append(ops, bin("ElEq", tensor.ElEq, isNum)...)
	ops = append(ops, bin("ElNe", tensor.ElNe, isNum)...)
	ops = append(ops, bin("Div", tensor.Div, isFloat)...)
	ops = append(ops, bin("Pow", tensor.Pow, isFloat)...)
	ops = append(ops, bin("MinBetween", tensor.MinBetween, isReal)...)
	ops = append(ops, bin("MaxBetween", tensor.MaxBetween, isReal)...)
	return ops
}

// product operations range over pairs of shared tensors
type c18ProdOp struct {
	name string
	run  func(by map[string]*c18Shared) string
}

func c18ProdOps() []c18ProdOp {
	d := func(by map[string]*c18Shared, n string) *tensor.Dense { return by[n].op.D }
	var ops []c18ProdOp
	for _, v := range []string{"f64vec", "f64vecS"} {
		for _, m := range []string{"f64sq", "f64sqT"} {
			v, m := v, m
			ops = append(ops,
				c18ProdOp{"MatVecMul(" + m + "," + v + ")", func(by map[string]*c18Shared) string { return digestTensor(d(by, m).MatVecMul(d(by, v))) }},
				c18ProdOp{"Dot(" + m + "," + v + ")", func(by map[string]*c18Shared) string { return digestTensor(tensor.Dot(d(by, m), d(by, v))) }},
				c18ProdOp{"Dot(" + v + "," + m + ")", func(by map[string]*c18Shared) string { return digestTensor(tensor.Dot(d(by, v), d(by, m))) }},
			)
		}
		v2 := v
		ops = append(ops,
			c18ProdOp{"Inner(" + v + ",f64vec)", func(by map[string]*c18Shared) string {
				r, err := d(by, v2).Inner(d(by, "f64vec"))
				return fmt.Sprint(r, err)
			}},
			c18ProdOp{"Outer(" + v + ",f64vec)", func(by map[string]*c18Shared) string { return digestTensor(d(by, v2).Outer(d(by, "f64vec"))) }},
			c18ProdOp{"Dot(" + v + ",f64vec)", func(by map[string]*c18Shared) string { return digestTensor(tensor.Dot(d(by, v2), d(by, "f64vec"))) }},
		)
	}
	for _, a := range []string{"f64C", "f64T", "f64S", "f64SS"} {
		for _, b := range []string{"f64m43", "f64m43T", "f64sq", "f64sqT"} {
			a, b := a, b
			ops = append(ops,
				c18ProdOp{"MatMul(" + a + "," + b + ")", func(by map[string]*c18Shared) string { return digestTensor(d(by, a).MatMul(d(by, b))) }},
				c18ProdOp{"Dot(" + a + "," + b + ")", func(by map[string]*c18Shared) string { return digestTensor(tensor.Dot(d(by, a), d(by, b))) }},
			)
		}
		a2 := a
		ops = append(ops, c18ProdOp{"TensorMul(" + a + ",f64m43)", func(by map[string]*c18Shared) string {
			return digestTensor(d(by, a2).TensorMul(d(by, "f64m43"), []int{1}, []int{0}))
		}})
	}
	ops = append(ops,
		c18ProdOp{"MatMul(f32sq,f32sq)", func(by map[string]*c18Shared) string { return digestTensor(d(by, "f32sq").MatMul(d(by, "f32sq"))) }},
		c18ProdOp{"MatVecMul(f32sq,f32vec)", func(by map[string]*c18Shared) string { return digestTensor(d(by, "f32sq").MatVecMul(d(by, "f32vec"))) }},
		c18ProdOp{"Trace(f64sq)", func(by map[string]*c18Shared) string { r, err := d(by, "f64sq").Trace(); return fmt.Sprint(r, err) }},
		c18ProdOp{"Trace(f64sqT)", func(by map[string]*c18Shared) string { r, err := d(by, "f64sqT").Trace(); return fmt.Sprint(r, err) }},
	)
	return ops
}

// ---- private operations ----

func c18PrivateOps() []func(g int, k int) string {
	mk := func(g, k int, shape ...int) *tensor.Dense {
		n := model.Size(shape)
		b := make([]float64, n)
		for i := range b {
			b[i] = float64(g*100 + k*7 + i + 1)
		}
		return tensor.New(tensor.WithShape(shape...), tensor.WithBacking(b))
	}
	return []func(g, k int) string{
		func(g, k int) string { a, b := mk(g, k, 3, 4), mk(g, k+1, 3, 4); r, err := tensor.Add(a, b, tensor.UseUnsafe()); return digestTensor(r, err) },
		func(g, k int) string {
			a, b := mk(g, k, 3, 4), mk(g, k+1, 3, 4)
			r := tensor.New(tensor.Of(tensor.Float64), tensor.WithShape(3, 4))
			res, err := tensor.Mul(a, b, tensor.WithReuse(r))
			return digestTensor(res, err)
		},
		func(g, k int) string {
			a := mk(g, k, 3, 4)
			a.T()
			if err := a.Transpose(); err != nil {
				return err.Error()
			}
			return digestTensor(a, nil)
		},
		func(g, k int) string {
			a := mk(g, k, 2, 3, 2)
			a.T(2, 0, 1)
			a.T(1, 0, 2)
			a.UT()
			return digestTensor(a, nil)
		},
		func(g, k int) string {
			a := mk(g, k, 4, 4)
			v, err := a.Slice(tensor.S(1, 3), tensor.S(0, 4, 2))
			if err != nil {
				return err.Error()
			}
			if err := v.(*tensor.Dense).Memset(float64(g)); err != nil {
				return err.Error()
			}
			return digestTensor(a, nil)
		},
		func(g, k int) string {
			a, b := mk(g, k, 2, 3), mk(g, k+2, 2, 3)
			c, err := tensor.Concat(0, a, b)
			d := digestTensor(c, err)
			if err == nil {
				tensor.ReturnTensor(c)
			}
			return d
		},
		func(g, k int) string {
			is := tensor.BorrowInts(3)
			for i := range is {
				is[i] = g*10 + i
			}
			runtime.Gosched()
			s := fmt.Sprint(is)
			tensor.ReturnInts(is)
			return s
		},
		func(g, k int) string {
			a := mk(g, k, 3, 4)
			r, err := tensor.Repeat(a, 1, 2)
			d := digestTensor(r, err)
			s, err2 := tensor.Sum(a, 0)
			d += digestTensor(s, err2)
			if err == nil {
				tensor.ReturnTensor(r)
			}
			return d
		},
		func(g, k int) string { a := mk(g, k, 3, 4); r, err := a.Apply(func(x float64) float64 { return x * 2 }, tensor.UseUnsafe()); return digestTensor(r, err) },
		func(g, k int) string {
			a, c := mk(g, k, 3, 4), mk(g, k+3, 3, 4)
			r, err := tensor.Add(a, float64(g+1), tensor.WithIncr(c))
			return digestTensor(r, err)
		},
		func(g, k int) string {
			a := mk(g, k, 3, 4)
			if err := a.Reshape(4, 3); err != nil {
				return err.Error()
			}
			a.T()
			r, err := tensor.Lte(a, float64(g*100+k*7+6))
			return digestTensor(r, err)
		},
		func(g, k int) string {
			a, b := mk(g, k, 2, 3), mk(g, k+2, 2, 3)
			r, err := tensor.Stack(1, a, b)
			return digestTensor(r, err)
		},
		func(g, k int) string {
			a, b := mk(g, k, 3, 3), mk(g, k+1, 3, 3)
			b.T()
			r, err := a.MatMul(b)
			return digestTensor(r, err)
		},
		func(g, k int) string {
			a := mk(g, k, 3, 4)
			a.MaskedGreater(float64(g*100 + k*7 + 6))
			return fmt.Sprint(a.Mask(), a.MaskedCount())
		},
	}
}

// c18PrivateScalarOps: tensor-scalar operations on private tensors (one element and a few elements) in every option mode and with
// the scalar on either side. These are the calls that wrap a Go scalar in pooled scratch metadata for the duration of the call;
// each goroutine uses its own tensors and its own scalar, so every digest must equal the digest of the same call made alone.
type c18ScalOp struct {
	name string
	run  func(g, k int) string
}

func c18PrivateScalarOps() []c18ScalOp {
	type binf func(a, b interface{}, opts ...tensor.FuncOpt) (tensor.Tensor, error)
	fns := []struct {
		name  string
		f     binf
		arith bool
	}{
		{"Add", tensor.Add, true}, {"Sub", tensor.Sub, true}, {"Mul", tensor.Mul, true}, {"Div", tensor.Div, true},
		{"Lt", tensor.Lt, false}, {"Gte", tensor.Gte, false}, {"ElEq", tensor.ElEq, false},
		{"MinBetween", tensor.MinBetween, true}, {"MaxBetween", tensor.MaxBetween, true},
	}
	mk := func(g, k int, shape []int) *tensor.Dense {
		n := model.Size(shape)
		b := make([]float64, n)
		for i := range b {
			b[i] = float64(g*50 + k*3 + i + 1)
		}
		return tensor.New(tensor.WithShape(shape...), tensor.WithBacking(b))
	}
	var out []c18ScalOp
	for _, fn := range fns {
		for _, mode := range []string{"safe", "unsafe", "reuse", "incr", "same"} {
			if !fn.arith && (mode == "incr" || mode == "reuse") {
				continue // comparisons into a float destination need AsSameType; covered by "same"
			}
			if fn.arith && mode == "same" {
				continue
			}
			if (fn.name == "MinBetween" || fn.name == "MaxBetween") && mode == "incr" {
				continue
			}
			for _, left := range []bool{true, false} {
				for _, shape := range [][]int{{1}, {1, 1}, {3}, {2, 2}} {
					fn, mode, left, shape := fn, mode, left, shape
					name := fmt.Sprintf("%s/%s/left=%v/%s", fn.name, mode, left, shapeStr(shape))
					out = append(out, c18ScalOp{name, func(g, k int) string {
						a := mk(g, k, shape)
						sc := float64(g*50 + k*3 + 2)
						var opts []tensor.FuncOpt
						switch mode {
						case "unsafe":
							opts = append(opts, tensor.UseUnsafe())
						case "reuse":
							opts = append(opts, tensor.WithReuse(mk(g, k+9, shape)))
						case "incr":
							opts = append(opts, tensor.WithIncr(mk(g, k+9, shape)))
						case "same":
							opts = append(opts, tensor.AsSameType())
						}
						var r tensor.Tensor
						var err error
						if left {
							r, err = fn.f(a, sc, opts...)
						} else {
							r, err = fn.f(sc, a, opts...)
						}
						return digestTensor(r, err) + "|" + digestTensor(a, nil)
					}})
				}
			}
		}
	}
	return out
}

// ---- the run ----

type c18Step struct {
	name string
	run  func(e *c18Env) string
}

type stamp struct {
	name   string
	t0, t1 int64
	g      int
}

func c18Run(c *core.Ctx, G, P int) {
	shared, err := c18Build(c.Rng)
	if err != nil {
		c.Inconclusive("shared-set-precondition")
		return
	}
	by := map[string]*c18Shared{}
	for _, s := range shared {
		by[s.name] = s
	}
	readOps, prodOps, privOps := c18ReadOps(), c18ProdOps(), c18PrivateOps()
	scalOps := c18PrivateScalarOps()

	// programs: every goroutine gets every (op, shared tensor) pair, every product op, and private ops, in its own order
	programs := make([][]c18Step, G)
	envs := make([]*c18Env, G)
	for g := 0; g < G; g++ {
		rng := rand.New(rand.NewSource(core.SeedFor(c.Seed, fmt.Sprintf("c18/%d/%d/%d", G, P, g))))
		mkp := func(t reflect.Type) *tensor.Dense {
			op, _ := gen.Build(model.New(t, []int{3, 4}, gen.Ramp(t, 12, int64(10+g))), gen.LC, rng)
			return op.D
		}
		envs[g] = &c18Env{g: g, scalarF: float64(2 + g), privF64: mkp(model.TF64), privF32: mkp(model.TF32), privI32: mkp(model.TInt32)}
		var steps []c18Step
		for _, o := range readOps {
			for _, s := range shared {
				if !o.accepts(s) {
					continue
				}
				o, s := o, s
				steps = append(steps, c18Step{o.name + "@" + s.name, func(e *c18Env) string { return o.run(s, e) }})
			}
		}
		for _, o := range prodOps {
			o := o
			steps = append(steps, c18Step{o.name, func(e *c18Env) string { return o.run(by) }})
		}
		for k := 0; k < 3; k++ {
			for i, po := range privOps {
				po, i, k := po, i, k
				steps = append(steps, c18Step{fmt.Sprintf("private#%d", i), func(e *c18Env) string { return po(e.g, k) }})
			}
		}
		for i, po := range scalOps {
			po, i := po, i
			steps = append(steps, c18Step{"private-scalar/" + po.name, func(e *c18Env) string { return po.run(e.g, i%5) }})
		}
		rng.Shuffle(len(steps), func(i, j int) { steps[i], steps[j] = steps[j], steps[i] })
		programs[g] = steps
	}
	runStep := func(st c18Step, e *c18Env) (d string) {
		defer func() {
			if r := recover(); r != nil {
				d = "panic: " + fmt.Sprint(r)
			}
		}()
		return st.run(e)
	}

	// sequential oracle
	expected := make([][]string, G)
	for g := 0; g < G; g++ {
		expected[g] = make([]string, len(programs[g]))
		for i, st := range programs[g] {
			expected[g][i] = runStep(st, envs[g])
		}
	}
	c18CheckShared(c, shared, "sequential-pre-run", G, P)

	// pool hook: PRNG-free yields (by event count) + ownership trace
	var seq int64
	type pev struct {
		kind int
		ptr  uintptr
		seq  int64
	}
	var pmu sync.Mutex
	var trace []pev
	tensor.VerifSetPoolHook(func(kind int, ptr uintptr, l, cp int) {
		n := atomic.AddInt64(&seq, 1)
		if ptr != 0 {
			pmu.Lock()
			trace = append(trace, pev{kind, ptr, n})
			pmu.Unlock()
		}
		if n%3 == 0 {
			runtime.Gosched()
		}
	})
	prev := runtime.GOMAXPROCS(P)
	gcWas := debug.SetGCPercent(-1)
	var clock int64
	got := make([][]string, G)
	stamps := make([][]stamp, G)
	var wg sync.WaitGroup
	start := make(chan struct{})
	for g := 0; g < G; g++ {
		got[g] = make([]string, len(programs[g]))
		wg.Add(1)
		go func(g int) {
			defer wg.Done()
			<-start
			for i, st := range programs[g] {
				t0 := atomic.AddInt64(&clock, 1)
				got[g][i] = runStep(st, envs[g])
				t1 := atomic.AddInt64(&clock, 1)
				stamps[g] = append(stamps[g], stamp{st.name, t0, t1, g})
				if (i+g)%4 == 0 {
					runtime.Gosched()
				}
			}
		}(g)
	}
	close(start)
	finished := make(chan struct{})
	go func() { wg.Wait(); close(finished) }()
	select {
	case <-finished:
	case <-time.After(c18Patience):
		// the goroutines normally need a few seconds. The wall clock only triggers a look at where they are: a goroutine that is
		// parked on a channel or lock inside the library with nobody left to wake it never obtains its result (violation);
		// goroutines that are still running make the run inconclusive.
		buf := make([]byte, 1<<24)
		dump := string(buf[:runtime.Stack(buf, true)])
		stuck := c18Stuck(dump)
		runtime.GOMAXPROCS(prev)
		tensor.VerifSetPoolHook(nil)
		debug.SetGCPercent(gcWas)
		if len(stuck) == 0 {
			c.Inconclusive("watchdog:goroutines-still-running")
			return
		}
		for _, st := range stuck {
			c.Violation(core.Sig("never-returns", st[0], st[1]), fmt.Sprintf("G%d/P%d/stuck", G, P), map[string]interface{}{"goroutines": G, "gomaxprocs": P},
				"every goroutine finishes its program", fmt.Sprintf("a goroutine is parked (%s) in %s and nothing can wake it: %s", st[0], st[1], short(st[2])))
		}
		c.Control(true)
		return
	}
	runtime.GOMAXPROCS(prev)
	tensor.VerifSetPoolHook(nil)
	debug.SetGCPercent(gcWas)

	// oracle 2: digests
	cfg := fmt.Sprintf("G%d/P%d", G, P)
	for g := 0; g < G; g++ {
		for i, st := range programs[g] {
			c.Eval(core.Sig(st.name, cfg), true)
			if got[g][i] != expected[g][i] {
				opn := st.name
				if j := strings.Index(opn, "@"); j >= 0 {
					opn = opn[:j]
				}
				sym := "diverged"
				if strings.HasPrefix(got[g][i], "panic: ") {
					sym = "panicked-under-concurrency"
				}
				c.Violation(core.Sig(sym, opn), fmt.Sprintf("%s/g%d/step%d/%s", cfg, g, i, st.name),
					map[string]interface{}{"goroutines": G, "gomaxprocs": P, "goroutine": g, "step": i, "operation": st.name}, short(expected[g][i]), short(got[g][i]))
			}
		}
	}
	// oracle 3: shared tensors untouched
	c18CheckShared(c, shared, "concurrent-run", G, P)
	// oracle 4: a pooled array is not handed back twice. The collector is off while the trace is taken, so an address names one
	// array for the whole run and the pools are not emptied: a second return of an address with no borrow in between means the
	// same array now sits in the pool twice and will be issued to two owners.
	sort.Slice(trace, func(i, j int) bool { return trace[i].seq < trace[j].seq })
	inPool := map[[2]uintptr]bool{}
	for _, ev := range trace {
		k := [2]uintptr{uintptr(ev.kind / 2), ev.ptr}
		switch ev.kind {
		case 0, 2:
			inPool[k] = false
		case 1, 3:
			if inPool[k] {
				c.Violation(core.Sig("pool-double-return", tensor.VerifPoolEventKinds[ev.kind]), fmt.Sprintf("%s/pool", cfg),
					map[string]interface{}{"goroutines": G, "gomaxprocs": P, "event": tensor.VerifPoolEventKinds[ev.kind]}, "an array is returned once per borrow", fmt.Sprintf("array %#x returned again while already in the pool", ev.ptr))
			}
			inPool[k] = true
		}
	}
	c.Extra("pool_events", len(trace))
	// evidence: distinct operation pairs observed overlapping in time
	var all []stamp
	for g := range stamps {
		all = append(all, stamps[g]...)
	}
	sort.Slice(all, func(i, j int) bool { return all[i].t0 < all[j].t0 })
	pairs := map[string]struct{}{}
	for i := range all {
		for j := i + 1; j < len(all) && all[j].t0 < all[i].t1; j++ {
			if all[i].g == all[j].g {
				continue
			}
			a, b := all[i].name, all[j].name
			if a > b {
				a, b = b, a
			}
			pairs[a+" || "+b] = struct{}{}
		}
	}
	c.Extra("overlapping_operation_pairs:"+cfg, len(pairs))
	c.Extra("steps_run_concurrently", len(all))
	if c.WantSample("config") {
		ex := ""
		for p := range pairs {
			ex = p
			break
		}
		c.Sample("config", map[string]interface{}{"goroutines": G, "gomaxprocs": P, "steps_per_goroutine": len(programs[0]), "shared_tensors": len(shared), "an_overlapping_pair": ex})
	}
	// negative control: a changed digest is noticed
	c.Control(digestTensor(by["f64C"].op.D, nil) != digestTensor(by["f64sq"].op.D, nil))
}

// c18Patience is how long the goroutines of one configuration may take before their stacks are inspected.
var c18Patience = 40 * time.Second

// c18Stuck finds, in a dump of all goroutine stacks, the program goroutines that are parked inside gorgonia.org/tensor.
// It returns (wait state, innermost library function, stack head) per such goroutine; nothing if some program goroutine is
// still runnable (then the others may yet be woken).
func c18Stuck(dump string) [][3]string {
	var out [][3]string
	for _, blk := range strings.Split(dump, "\n\n") {
		lines := strings.Split(blk, "\n")
		if len(lines) < 2 || !strings.HasPrefix(lines[0], "goroutine ") || !strings.Contains(blk, "props.c18Run.func") || strings.Contains(blk, "runtime.Stack") {
			continue
		}
		state := lines[0]
		if i := strings.Index(state, "["); i >= 0 {
			state = strings.TrimSuffix(state[i+1:], "]:")
		}
		if i := strings.Index(state, ","); i >= 0 {
			state = state[:i]
		}
		parked := false
		for _, w := range []string{"chan send", "chan receive", "select", "sync.Mutex.Lock", "semacquire", "sync.Cond.Wait", "sync.RWMutex"} {
			if strings.HasPrefix(state, w) {
				parked = true
			}
		}
		if strings.Contains(blk, "sync.(*WaitGroup).Wait") || strings.Contains(lines[0], "finished") {
			continue
		}
		if !parked {
			if state == "runnable" || state == "running" {
				return nil
			}
			continue
		}
		fn := ""
		for _, l := range lines[1:] {
			if strings.HasPrefix(l, "gorgonia.org/tensor") {
				fn = strings.TrimPrefix(l, "gorgonia.org/tensor.")
				if i := strings.LastIndex(fn, "("); i > 0 {
					fn = fn[:i]
				}
				break
			}
		}
		if fn != "" {
			out = append(out, [3]string{state, fn, strings.Join(lines[:min(len(lines), 9)], " | ")})
		}
	}
	return out
}

func c18CheckShared(c *core.Ctx, shared []*c18Shared, when string, G, P int) {
	for _, s := range shared {
		c.Eval(core.Sig("shared-intact", s.name, when), true)
		if ch := s.op.Changed(s.snap); len(ch) > 0 {
			c.Violation(core.Sig("shared-changed", "elements", s.op.Layout), fmt.Sprintf("G%d/P%d/%s/%s", G, P, when, s.name),
				map[string]interface{}{"shared": s.name, "when": when}, "read-only tensor untouched", fmt.Sprint("storage positions ", ch))
		}
		if d := s.meta.Diff(gen.MetaOf(s.op.D)); d != "" {
			c.Violation(core.Sig("shared-changed", "metadata", s.op.Layout), fmt.Sprintf("G%d/P%d/%s/%s", G, P, when, s.name),
				map[string]interface{}{"shared": s.name, "when": when}, "read-only tensor untouched", d)
		}
	}
}
