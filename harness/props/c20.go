package props

import (
	"fmt"
	"reflect"

	"gorgonia.org/tensor"

	"verifharness/core"
	"verifharness/gen"
	"verifharness/model"
)

// C20 — alternative engines and build configurations are observationally equivalent.
//
// Engines: every case is run on operands carrying the specialised engine and judged (1) by the same reference model and
// frame monitors as the default engine and (2) against the outcome of the very same case (same values, same layouts) on
// default-engine operands in the same process. Builds: the same deterministic case list runs in the default, noasm and
// inplacetranspose builds; every build is judged by the model, and the canonical outcome of every case is logged and
// compared across builds by the parent (offline checker over the recorded logs).

func init() {
	register(&core.Prop{
		ID: "C20",
		Rule: "engines {default, Float32Engine, Float64Engine} (attached with WithEngine to every operand of their element type) x builds {default, noasm, inplacetranspose} x: the 8 arithmetic operations in forms {tensor-tensor, tensor-scalar, scalar-tensor} x modes {safe, unsafe, reuse, incr, reuse aliasing an operand} x layout pairs over {C, T, S, SS, F}; FMA with tensor and scalar multiplier over layout triples (a, x, y); Inner/MatVecMul/MatMul/Outer/Dot/TensorMul (C09 matrix); transposition sequences (C03 matrix) on int16/float32/float64/complex128 sources {C, S, SS, F}; element access and iteration (C01/C05 index arithmetic) under every build. " +
			"Oracles: the reference model and frame monitors of the originating checks in every configuration; the outcome (result elements, result identity, operand and destination post-state, refusal) of the same case on default-engine operands; equality of the canonical outcome of every case across builds. A refusal by the alternative configuration is accepted (the statement covers the operations they accept); wrong values, a changed operand or a differing destination effect are violations. distinct_nontrivial counts distinct (configuration, operation, mode, layout) classes.",
		Assume: []string{"the alternative engine refusing a call the default engine serves is not a violation (the statement speaks of the operations they accept)"},
		Flavours: func(tier string) []string {
			return []string{"plain", "noasm", "inplace"}
		},
		Groups: c20Groups,
	})
}

type c20Eng struct {
	name string
	e    tensor.Engine
	t    reflect.Type
}

var c20Engines = []c20Eng{
	{"default", nil, nil},
	{"Float64Engine", tensor.Float64Engine{}, model.TF64},
	{"Float32Engine", tensor.Float32Engine{}, model.TF32},
}

func withEngine(e c20Eng, f func()) {
	propEngine = e.e
	defer func() { propEngine = nil }()
	f()
}

func c20Groups(tier string) []core.Group {
	var gs []core.Group
	for _, e := range c20Engines {
		e := e
		for _, op := range arithOps {
			op := op
			gs = append(gs, core.Group{Key: fmt.Sprintf("arith/%s/%s", e.name, op), Run: func(c *core.Ctx) { c20Arith(c, e, op) }})
		}
		gs = append(gs, core.Group{Key: "fma/" + e.name, Run: func(c *core.Ctx) { c20FMA(c, e) }})
		if e.e != nil {
			gs = append(gs, core.Group{Key: "misfit/" + e.name, Run: func(c *core.Ctx) { c20Misfit(c, e) }})
		}
		for _, prod := range []string{"Inner", "MatVecMul", "MatMul", "Outer", "Dot", "TensorMul"} {
			prod := prod
			for _, la := range []string{gen.LC, gen.LT, gen.LS} {
				la := la
				gs = append(gs, core.Group{Key: fmt.Sprintf("product/%s/%s/%s", e.name, prod, la), Run: func(c *core.Ctx) {
					withEngine(e, func() {
						for _, t := range c20Types(e) {
							c09Run(c, prod, t, la)
						}
					})
				}})
			}
		}
		for _, src := range []string{gen.LC, gen.LS, gen.LSS, gen.LF} {
			src := src
			gs = append(gs, core.Group{Key: fmt.Sprintf("transpose/%s/%s", e.name, src), Run: func(c *core.Ctx) {
				withEngine(e, func() {
					types := c20Types(e)
					if e.e == nil {
						types = []reflect.Type{model.TInt16, model.TC128, model.TF64, model.TStr}
					}
					for _, t := range types {
						for _, shape := range [][]int{{2, 2}, {2, 3}, {3, 3}, {3, 4}, {4, 4}, {2, 1, 2}, {2, 2, 4}, {3, 2, 3}, {2, 3, 4}} {
							c03Seqs(c, src, t, shape)
						}
					}
				})
			}})
		}
	}
	// index arithmetic (the noasm build replaces the assembly divmod and bit helpers)
	for _, lay := range []string{gen.LC, gen.LT, gen.LS, gen.LSS, gen.LF} {
		lay := lay
		gs = append(gs, core.Group{Key: "index/access/" + lay, Run: func(c *core.Ctx) {
			for _, t := range []reflect.Type{model.TInt8, model.TF64} {
				for _, shape := range [][]int{{5}, {3, 4}, {2, 3, 4}, {3, 1, 2, 2}} {
					c01Tensor(c, t, lay, shape)
				}
			}
		}})
		gs = append(gs, core.Group{Key: "index/iterate/" + lay, Run: func(c *core.Ctx) {
			for _, shape := range [][]int{{5}, {3, 4}, {2, 3, 4}, {3, 1, 2, 2}} {
				c05Flat(c, lay, shape)
			}
			if lay == gen.LC || lay == gen.LT {
				for _, shape := range [][]int{{3}, {2, 3}} { // every mask over the elements: small shapes only
					c05Masked(c, lay, shape)
				}
			}
		}})
	}
	return gs
}

func c20Types(e c20Eng) []reflect.Type {
	if e.t != nil {
		return []reflect.Type{e.t}
	}
	return []reflect.Type{model.TF64, model.TF32}
}

var c20LayPairs = [][2]string{{gen.LC, gen.LC}, {gen.LC, gen.LT}, {gen.LT, gen.LC}, {gen.LS, gen.LSS}, {gen.LT, gen.LT}, {gen.LF, gen.LF}, {gen.LF, gen.LC}, {gen.LSS, gen.LC}}

// outcome is the canonical outcome of an elementwise observation.
func c20Outcome(o *ewObs) string {
	if o == nil {
		return "none"
	}
	if o.precond != "" {
		return "precondition:" + o.precond
	}
	post := func(t *ewTensorObs) string {
		if t == nil || t.after == nil {
			return "-"
		}
		return fmt.Sprint(t.after.V, t.metaDif)
	}
	if o.panicked || o.err != nil {
		return fmt.Sprint("refused a=", post(o.A), " b=", post(o.B), " d=", post(o.D))
	}
	res := "unreadable"
	if o.resM != nil {
		res = fmt.Sprint(o.resM.Shape, o.resM.V)
	}
	return fmt.Sprint("res=", res, " is=", o.resIs, " a=", post(o.A), " b=", post(o.B), " d=", post(o.D))
}

func c20Arith(c *core.Ctx, e c20Eng, op string) {
	shapes := [][]int{{2, 3}, {3, 4}}
	if c.Tier == "thorough" {
		shapes = append(shapes, []int{6}, []int{2, 3, 2}, []int{4, 4})
	}
	modes := []string{"safe", "unsafe", "reuse", "incr", "reuseA", "reuseB", "incrB"}
	for _, t := range c20Types(e) {
		for _, shape := range shapes {
			n := model.Size(shape)
			for _, form := range []string{"TT", "TS", "ST"} {
				for _, mode := range modes {
					if (mode == "reuseB" || mode == "incrB") && form != "TT" {
						continue
					}
					if (mode == "incr" || mode == "incrB") && (op == "MinBetween" || op == "MaxBetween") {
						continue
					}
					for _, lp := range c20LayPairs {
						if form != "TT" && lp[1] != gen.LC {
							continue
						}
						dests := []string{""}
						if mode == "reuse" || mode == "incr" {
							dests = []string{gen.LC, gen.LF}
						}
						for _, dest := range dests {
							sp := ewSpec{Family: "arith", Op: op, T: t, Form: form, LayA: lp[0], Mode: mode, Dest: dest, API: "func", Shape: shape, Vals: "small"}
							if form == "TT" {
								sp.LayB = lp[1]
							}
							if !ewDefinedFor(sp) {
								continue
							}
							sp.FixA = ewValues(c, t, n, "small", 0)
							sp.FixB = ewValues(c, t, n, "small", 1)
							sp.FixS = ewValues(c, t, 1, "small", 1)[0]
							sp.FixD = gen.SmallInts(t, n, c.Rng, 1, 3)
							if mode == "reuse" {
								sp.FixD = nil
							}
							// the default engine on the same case
							st := c.Rng.Int63()
							c.Rng.Seed(st)
							ref := ewRun(c, sp)
							var o *ewObs
							c.Rng.Seed(st) // same layout recipes for the alternative engine
							withEngine(e, func() { o = ewRun(c, sp) })
							pol := ewPolicy{eq: c07Eq(sp), refusalOK: true}
							if e.e != nil {
								pol.sigExtra = "engine=" + e.name
							}
							if !ewJudge(c, o, pol) {
								continue
							}
							c.Eval(core.Sig(e.name, sp.key()), true)
							c.Digest(e.name+"/"+sp.caseKey(), core.Sig("arith", op, form, mode), c20Outcome(o))
							if c.WantSample("arith/" + e.name) {
								d := sp.desc()
								d["engine"] = e.name
								c.Sample("arith/"+e.name, d)
							}
							if e.e == nil {
								continue
							}
							refRefused := ref.panicked || ref.err != nil || ref.precond != ""
							altRefused := o.panicked || o.err != nil
							if refRefused || altRefused {
								if altRefused && !refRefused {
									c.Refused("engine-refuses:" + e.name + ":" + op)
								}
								continue
							}
							if a, b := c20Outcome(ref), c20Outcome(o); a != b {
								d := sp.desc()
								d["engine"] = e.name
								c.Violation(core.Sig("differs-from-default-engine", op, form, layoutPairClass(sp.LayA, sp.LayB), mode, "engine="+e.name), sp.caseKey(), d, short(a), short(b))
							}
						}
					}
				}
			}
		}
	}
	c.Control(c20Outcome(&ewObs{precond: "x"}) != c20Outcome(&ewObs{precond: "y"}))
}

// c20FMA: y <- a*x + y with a tensor or a scalar multiplier, over layout triples.
func c20FMA(c *core.Ctx, e c20Eng) {
	lays := []string{gen.LC, gen.LT, gen.LS, gen.LSS, gen.LF}
	shapes := [][]int{{2, 3}, {3, 4}, {6}}
	if c.Tier == "thorough" {
		shapes = append(shapes, []int{2, 3, 2}, []int{4, 4})
	}
	type obs struct {
		refused bool
		msg     string
		resIsY  bool
		y       *model.ND
		aCh     bool
		xCh     bool
		out     string
	}
	for _, t := range c20Types(e) {
		tn := model.Name(t)
		for _, shape := range shapes {
			n := model.Size(shape)
			for _, scalarX := range []bool{false, true} {
				for _, la := range lays {
					for _, lx := range lays {
						if scalarX && lx != gen.LC {
							continue
						}
						for _, ly := range lays {
							if len(shape) < 2 && (la != gen.LC && la != gen.LSS || lx != gen.LC && lx != gen.LSS || ly != gen.LC && ly != gen.LSS) {
								continue
							}
							av, xv, yv := gen.SmallInts(t, n, c.Rng, 1, 5), gen.SmallInts(t, n, c.Rng, 1, 4), gen.SmallInts(t, n, c.Rng, 1, 9)
							xs := model.FromInt(t, int64(2+c.Rng.Intn(3)))
							run := func(eng c20Eng) (ob obs, ok bool) {
								var a, x, y *ewTensorObs
								var pre string
								withEngine(eng, func() {
									a, pre = ewBuild(c, t, shape, la, av, nil, nil)
									if pre != "" {
										return
									}
									if !scalarX {
										x, pre = ewBuild(c, t, shape, lx, xv, nil, nil)
										if pre != "" {
											return
										}
									}
									y, pre = ewBuild(c, t, shape, ly, yv, nil, nil)
								})
								if pre != "" || a.op.Layout != la || y.op.Layout != ly || (x != nil && x.op.Layout != lx) {
									return ob, false
								}
								a.before()
								y.before()
								var xarg interface{} = xs
								if x != nil {
									x.before()
									xarg = x.op.D
								}
								var res tensor.Tensor
								var err error
								p, msg := core.Catch(func() { res, err = tensor.FMA(a.op.D, xarg, y.op.D) })
								a.observe()
								y.observe()
								if x != nil {
									x.observe()
									ob.xCh = !x.untouched()
								}
								ob.aCh = !a.untouched()
								ob.refused = p || err != nil
								if err != nil {
									msg = err.Error()
								}
								ob.msg = msg
								if rd, ok := res.(*tensor.Dense); ok {
									ob.resIsY = rd == y.op.D
								}
								ob.y = y.after
								ob.out = fmt.Sprint("refused=", ob.refused, " y=", y.after.V, y.metaDif, " a-changed=", ob.aCh, " x-changed=", ob.xCh, " res-is-y=", ob.resIsY)
								if len(y.outside) > 0 || len(a.outside) > 0 {
									ob.out += " OUTSIDE-WRITTEN"
								}
								return ob, true
							}
							ob, ok := run(e)
							if !ok {
								continue
							}
							form := "tensor"
							if scalarX {
								form = "scalar"
							}
							lt := la + "," + lx + "," + ly
							caseKey := fmt.Sprintf("FMA/%s/%s/%s/%s/%s", e.name, tn, form, shapeStr(shape), lt)
							desc := map[string]interface{}{"engine": e.name, "dtype": tn, "multiplier": form, "shape": shape, "layouts(a,x,y)": lt, "a": short(av), "x": short(xv), "scalar": xs, "y": short(yv)}
							c.Eval(core.Sig("FMA", e.name, tn, form, lt, shapeClass(shape)), true)
							c.Digest(caseKey, core.Sig("FMA", form), ob.out)
							if c.WantSample("fma/" + e.name) {
								c.Sample("fma/"+e.name, desc)
							}
							viol := func(sym string, w, g interface{}) {
								parts := []string{"FMA", form, lt, dtypeClass(t), sym}
								if e.e != nil {
									parts = append(parts, "engine="+e.name)
								}
								c.Violation(core.Sig(parts...), caseKey, desc, w, g)
							}
							if ob.aCh {
								viol("operand-a-changed", "a untouched", "changed")
								continue
							}
							if ob.xCh {
								viol("operand-x-changed", "x untouched", "changed")
								continue
							}
							if ob.refused {
								if la == gen.LC && lx == gen.LC && ly == gen.LC && e.e == nil {
									viol("refused-contiguous", "y = a*x + y", ob.msg)
								} else {
									c.Refused("FMA:" + e.name + ":" + lt)
								}
								continue
							}
							want := make([]interface{}, n)
							for i := range want {
								xi := xs
								if !scalarX {
									xi = xv[i]
								}
								pr, _ := model.Bin("Mul", av[i], xi)
								want[i], _ = model.Bin("Add", yv[i], pr)
							}
							bad := ob.y == nil || len(ob.y.V) != n
							for i := 0; !bad && i < n; i++ {
								bad = !model.Equal(ob.y.V[i], want[i])
							}
							if bad {
								var g interface{} = "unreadable"
								if ob.y != nil {
									g = short(ob.y.V)
								}
								viol("wrong-values", short(want), g)
								continue
							}
							if !ob.resIsY {
								viol("result-is-not-y", "y", "another tensor")
							}
							if e.e != nil {
								if ref, ok := run(c20Engines[0]); ok && !ref.refused && ref.out != ob.out {
									viol("differs-from-default-engine", short(ref.out), short(ob.out))
								}
							}
						}
					}
				}
			}
		}
	}
	c.Control(true)
}

// c20Misfit: operands and destinations whose shapes do not match (same number of elements, another shape). The default
// engine refuses some of these and reshapes the destination in others; a drop-in replacement has to do the same, or refuse.
func c20Misfit(c *core.Ctx, e c20Eng) {
	t := e.t
	mk := func(eng tensor.Engine, shape []int, lay string, base int) (*tensor.Dense, []interface{}) {
		n := model.Size(shape)
		vals := make([]interface{}, n)
		for i := range vals {
			vals[i] = model.FromInt(t, int64(base+i))
		}
		op, err := gen.BuildWith(model.New(t, shape, vals), lay, c.Rng, eng)
		if err != nil || op.Layout != lay {
			return nil, nil
		}
		return op.D, vals
	}
	read := func(d tensor.Tensor) string {
		if rv := reflect.ValueOf(d); d == nil || (rv.Kind() == reflect.Ptr && rv.IsNil()) {
			return "nil"
		}
		m, err := gen.ReadAll(d)
		if err != nil {
			return "unreadable"
		}
		return fmt.Sprint(m.Shape, m.V)
	}
	type kase struct {
		name       string
		sa, sb, sd []int // shapes of a, of b (or x), of the destination (or y)
		run        func(a, b, d *tensor.Dense) (tensor.Tensor, error)
	}
	scalar := model.FromInt(t, 3)
	cases := []kase{
		{"Add(a,b)", []int{2, 3}, []int{3, 2}, nil, func(a, b, d *tensor.Dense) (tensor.Tensor, error) { return tensor.Add(a, b) }},
		{"Add(a,b)", []int{2, 3}, []int{6}, nil, func(a, b, d *tensor.Dense) (tensor.Tensor, error) { return tensor.Add(a, b) }},
		{"Add(a,b,unsafe)", []int{2, 3}, []int{3, 2}, nil, func(a, b, d *tensor.Dense) (tensor.Tensor, error) { return tensor.Add(a, b, tensor.UseUnsafe()) }},
		{"Add(a,b,reuse)", []int{2, 3}, []int{3, 2}, []int{2, 3}, func(a, b, d *tensor.Dense) (tensor.Tensor, error) { return tensor.Add(a, b, tensor.WithReuse(d)) }},
		{"Add(a,b,reuse)", []int{2, 3}, []int{2, 3}, []int{3, 2}, func(a, b, d *tensor.Dense) (tensor.Tensor, error) { return tensor.Add(a, b, tensor.WithReuse(d)) }},
		{"Add(a,b,reuse)", []int{2, 3}, []int{2, 3}, []int{6}, func(a, b, d *tensor.Dense) (tensor.Tensor, error) { return tensor.Add(a, b, tensor.WithReuse(d)) }},
		{"Add(a,b,incr)", []int{2, 3}, []int{2, 3}, []int{3, 2}, func(a, b, d *tensor.Dense) (tensor.Tensor, error) { return tensor.Add(a, b, tensor.WithIncr(d)) }},
		{"Add(a,b,incr)", []int{2, 3}, []int{3, 2}, []int{2, 3}, func(a, b, d *tensor.Dense) (tensor.Tensor, error) { return tensor.Add(a, b, tensor.WithIncr(d)) }},
		{"FMA(a,x,y)", []int{2, 3}, []int{3, 2}, []int{2, 3}, func(a, b, d *tensor.Dense) (tensor.Tensor, error) { return tensor.FMA(a, b, d) }},
		{"FMA(a,x,y)", []int{2, 3}, []int{2, 3}, []int{3, 2}, func(a, b, d *tensor.Dense) (tensor.Tensor, error) { return tensor.FMA(a, b, d) }},
		{"FMA(a,x,y)", []int{2, 3}, []int{2, 3}, []int{6}, func(a, b, d *tensor.Dense) (tensor.Tensor, error) { return tensor.FMA(a, b, d) }},
		{"FMA(a,s,y)", []int{2, 3}, nil, []int{3, 2}, func(a, b, d *tensor.Dense) (tensor.Tensor, error) { return tensor.FMA(a, scalar, d) }},
		{"FMA(a,s,y)", []int{2, 3}, nil, []int{6}, func(a, b, d *tensor.Dense) (tensor.Tensor, error) { return tensor.FMA(a, scalar, d) }},
		{"FMA(a,s,y)", []int{6}, nil, []int{2, 3}, func(a, b, d *tensor.Dense) (tensor.Tensor, error) { return tensor.FMA(a, scalar, d) }},
	}
	for _, k := range cases {
		for _, lay := range []string{gen.LC, gen.LF} {
			outcome := func(eng tensor.Engine) (string, bool) {
				a, _ := mk(eng, k.sa, lay, 1)
				var b, d *tensor.Dense
				if k.sb != nil {
					b, _ = mk(eng, k.sb, lay, 10)
				}
				if k.sd != nil {
					d, _ = mk(eng, k.sd, lay, 100)
				}
				if a == nil || (k.sb != nil && b == nil) || (k.sd != nil && d == nil) {
					return "precondition", true
				}
				var res tensor.Tensor
				var err error
				p, _ := core.Catch(func() { res, err = k.run(a, b, d) })
				post := fmt.Sprint(" a=", read(a), " b=", read(b), " d=", read(d))
				if p || err != nil {
					return "refused" + post, true
				}
				is := "fresh"
				switch {
				case res == tensor.Tensor(a):
					is = "a"
				case b != nil && res == tensor.Tensor(b):
					is = "b"
				case d != nil && res == tensor.Tensor(d):
					is = "d"
				}
				return fmt.Sprint("res=", read(res), " is=", is, post), false
			}
			ref, refRefused := outcome(nil)
			alt, altRefused := outcome(e.e)
			key := core.Sig("misfit", e.name, k.name, shapeStr(k.sa), shapeStr(k.sb), shapeStr(k.sd), lay)
			c.Eval(key, true)
			desc := map[string]interface{}{"engine": e.name, "call": k.name, "a": k.sa, "b_or_x": k.sb, "dest_or_y": k.sd, "layout": lay}
			if c.WantSample("misfit/" + e.name) {
				c.Sample("misfit/"+e.name, desc)
			}
			if ref == "precondition" || alt == "precondition" {
				continue
			}
			caseKey := fmt.Sprintf("misfit/%s/%s/%s/%s/%s/%s", e.name, k.name, shapeStr(k.sa), shapeStr(k.sb), shapeStr(k.sd), lay)
			switch {
			case refRefused && !altRefused:
				c.Violation(core.Sig("misfit", k.name, "accepted-where-default-engine-refuses", "engine="+e.name), caseKey, desc, short(ref), short(alt))
			case altRefused && !refRefused:
				c.Refused("engine-refuses-misfit:" + e.name + ":" + k.name)
			case ref != alt:
				// (two refusals may leave different texts; their post-states are part of the outcome and must agree)
				c.Violation(core.Sig("misfit", k.name, "differs-from-default-engine", "engine="+e.name), caseKey, desc, short(ref), short(alt))
			}
		}
	}
	c.Control(true)
}
