package props

import (
	"fmt"
	"reflect"
	"sort"
	"strings"

	"gorgonia.org/tensor"
	"verifharness/core"
	"verifharness/gen"
	"verifharness/model"
)

// C10 — concatenation, stacking and repetition assemble exactly the operands' elements.

func init() {
	register(&core.Prop{
		ID: "C10",
		Rule: "class matrix: {Dense.Concat, tensor.Concat, Dense.Stack, tensor.Stack, Hstack, Vstack, Dense.Repeat, tensor.Repeat, tensor.RepeatReuse} x 1-4 operands x shapes of rank 1-4 (row/column vectors, unit axes) x every valid axis (plus invalid ones) x operand layouts {C,T,S,SS,MS} independently per operand x repeat counts {uniform, per-element, with zeros, wrong length} x element widths 1-16 bytes and strings. " +
			"Oracle: NumPy's concatenate/stack/repeat on the operands' logical contents (only calls NumPy itself defines are judged by value; library extensions and documented restrictions are judged for the frame clauses only); result shape; every operand bit-identical afterwards with unchanged metadata; operands that do not fit must be refused with an error (no panic). distinct_nontrivial counts distinct (operation, operand count, axis, layouts, shapes, dtype) keys with at least one non-contiguous operand or more than one operand.",
		Assume: []string{"Vstack of 1-D operands is a documented restriction (refusal accepted)"},
		// the copies and block moves go through unsafe and reflect.SliceHeader: the thorough tier repeats the workload under
		// AddressSanitizer (a report ends the child; the parent turns it into a process-fatal violation naming the open case)
		Flavours: func(tier string) []string {
			if tier == "thorough" {
				return []string{"plain", "asan"}
			}
			return []string{"plain"}
		},
		Groups: c10Groups,
	})
}

func c10Types(tier string) []reflect.Type {
	if tier == "thorough" {
		return []reflect.Type{model.TBool, model.TInt8, model.TUint16, model.TF32, model.TInt64, model.TF64, model.TC64, model.TC128, model.TStr}
	}
	return []reflect.Type{model.TInt8, model.TInt16, model.TF32, model.TF64, model.TC128, model.TStr}
}

func c10Groups(tier string) []core.Group {
	var gs []core.Group
	for _, op := range []string{"Concat", "Stack", "Repeat"} {
		for _, t := range c10Types(tier) {
			for _, lay := range append(append([]string{}, gen.RowLayouts...), gen.LF) {
				op, t, lay := op, t, lay
				gs = append(gs, core.Group{Key: fmt.Sprintf("%s/%s/%s", op, model.Name(t), lay), Run: func(c *core.Ctx) {
					switch op {
					case "Concat":
						c10Concat(c, t, lay)
					case "Stack":
						c10Stack(c, t, lay)
					default:
						c10Repeat(c, t, lay)
					}
				}})
			}
		}
	}
	gs = append(gs, core.Group{Key: "misfits", Run: c10Misfits})
	gs = append(gs, core.Group{Key: "operand-list", Run: c10OperandList})
	return gs
}

func c10Shapes(tier string) [][]int {
	s := [][]int{{3}, {2, 3}, {3, 1}, {1, 3}, {2, 3, 2}, {2, 1, 3}, {1, 3, 2}, {3, 2, 1}, {2, 2, 2, 3}}
	if tier == "thorough" {
		s = append(s, []int{1}, []int{4, 2}, []int{1, 1, 3}, []int{1, 2, 3, 2}, []int{2, 3, 1, 2}, []int{2, 3, 2, 1})
	}
	return s
}

func axisCls(axis, rank int) string {
	switch {
	case rank == 1:
		return "only"
	case axis == 0:
		return "first"
	case axis == rank-1:
		return "last"
	case axis >= rank:
		return "new-last"
	}
	return "middle"
}

func laySet(ops []*ewTensorObs) string {
	m := map[string]bool{}
	for _, o := range ops {
		m[o.op.Layout] = true
	}
	var s []string
	for k := range m {
		s = append(s, k)
	}
	sort.Strings(s)
	return strings.Join(s, "+")
}

type c10Call struct {
	name string
	do   func(ds []*tensor.Dense) (tensor.Tensor, error)
}

// c10Exec builds the operands, runs the call and judges frame + (optionally) value.
func c10Exec(c *core.Ctx, op string, t reflect.Type, shapes [][]int, lays []string, axis int, call c10Call, want func(ms []*model.ND) (*model.ND, bool), judgeValues bool, sigExtra string) {
	var ops []*ewTensorObs
	var ds []*tensor.Dense
	var ms []*model.ND
	base := int64(1)
	for i, sh := range shapes {
		n := model.Size(sh)
		var vals []interface{}
		if model.IsNumber(t) {
			vals = gen.Distinct(t, n, c.Rng, base, 1)
		} else {
			vals = gen.Ramp(t, n, base)
		}
		base += int64(n)
		o, pre := ewBuild(c, t, sh, lays[i], vals, nil, nil)
		if pre != "" {
			c.Inconclusive(pre)
			return
		}
		if o.op.Layout != lays[i] {
			return
		}
		ops = append(ops, o)
		ds = append(ds, o.op.D)
		ms = append(ms, o.op.M)
	}
	for _, o := range ops {
		o.before()
	}
	var res tensor.Tensor
	var err error
	p, msg := core.Catch(func() { res, err = call.do(ds) })
	for _, o := range ops {
		o.observe()
	}
	shs := make([]string, len(shapes))
	for i, s := range shapes {
		shs[i] = shapeStr(s)
	}
	key := core.Sig(call.name, model.Name(t), strings.Join(shs, ""), fmt.Sprint(axis), strings.Join(lays, ","), sigExtra)
	caseKey := fmt.Sprintf("%s/%s/%s/axis%d/%s/%s", call.name, model.Name(t), strings.Join(shs, ""), axis, strings.Join(lays, ","), sigExtra)
	desc := map[string]interface{}{"op": call.name, "dtype": model.Name(t), "shapes": shapes, "axis": axis, "layouts": lays, "extra": sigExtra}
	nonC := false
	for _, l := range lays {
		if l != gen.LC {
			nonC = true
		}
	}
	c.Eval(key, nonC || len(shapes) > 1)
	if c.WantSample(call.name) {
		c.Sample(call.name, desc)
	}
	rank := len(shapes[0])
	viol := func(sym string, w, g interface{}) {
		c.Violation(core.Sig(call.name, fmt.Sprintf("n%d", len(shapes)), "axis:"+axisCls(axis, rank), laySet(ops), shapeClass(shapes[0]), dtypeClass(t), sym), caseKey, desc, w, g)
	}
	for i, o := range ops {
		if len(o.outside) > 0 {
			viol("outside-operand-changed", "untouched", fmt.Sprint(i, o.outside))
			return
		}
		if !o.untouched() {
			viol("operand-changed", fmt.Sprintf("operand %d untouched", i), fmt.Sprint(o.changed, " ", o.metaDif))
			return
		}
	}
	wm, fits := want(ms)
	if !fits {
		switch {
		case p:
			viol("panic-instead-of-error", "an error", msg)
		case err == nil:
			viol("misfit-accepted", "an error", fmt.Sprint(res.Shape()))
		}
		return
	}
	if p || err != nil {
		m := msg
		if err != nil {
			m = err.Error()
		}
		if !judgeValues {
			c.Refused(call.name + "|extension")
			return
		}
		if !nonC {
			viol("refused-contiguous", "a result", m)
		} else if c.Prop == "C16" {
			c.Refused(call.name + "|colmajor") // C16 lets an operation refuse a column-major operand
		} else {
			// operands of any layout are to be read by logical content: a refusal because of a layout is a violation here
			viol("refused-layout", "a result", m)
		}
		return
	}
	if !judgeValues {
		return
	}
	rd, ok := res.(*tensor.Dense)
	if !ok || rd == nil {
		viol("not-dense", "*Dense", fmt.Sprintf("%T", res))
		return
	}
	if e := gen.ReadMatches(rd, wm); e != nil {
		sym := "wrong-elements"
		if !gen.ShapeEq([]int(rd.Shape()), wm.Shape) {
			sym = "wrong-shape"
		}
		viol(sym, fmt.Sprint(shapeStr(wm.Shape), " ", short(wm.V)), e.Error())
	}
}

func rotLayouts(c *core.Ctx, first string, k int, rot int) []string {
	rotPool := operandLayouts(c)
	lays := make([]string, k)
	lays[0] = first
	for i := 1; i < k; i++ {
		lays[i] = rotPool[(rot+i*2)%len(rotPool)]
	}
	return lays
}

func c10Concat(c *core.Ctx, t reflect.Type, lay string) {
	rot := 0
	for _, shape := range c10Shapes(c.Tier) {
		rank := len(shape)
		for axis := 0; axis < rank; axis++ {
			for k := 1; k <= 4; k++ {
				// operands agree on every axis but `axis`
				shapes := make([][]int, k)
				for i := range shapes {
					s := model.CopyInts(shape)
					s[axis] = 1 + (shape[axis]+i)%3
					shapes[i] = s
				}
				shapes[0] = model.CopyInts(shape)
				for _, firstAt := range []int{0, k - 1} {
					lays := rotLayouts(c, lay, k, rot)
					rot++
					if firstAt != 0 {
						lays[0], lays[firstAt] = lays[firstAt], lays[0]
					}
					axis := axis
					want := func(ms []*model.ND) (*model.ND, bool) { return model.Concat(axis, ms...) }
					c10Exec(c, "Concat", t, shapes, lays, axis, c10Call{"Dense.Concat", func(ds []*tensor.Dense) (tensor.Tensor, error) { return ds[0].Concat(axis, ds[1:]...) }}, want, true, "")
					if k > 1 {
						c10Exec(c, "Concat", t, shapes, lays, axis, c10Call{"tensor.Concat", func(ds []*tensor.Dense) (tensor.Tensor, error) {
							o := make([]tensor.Tensor, len(ds)-1)
							for i := range o {
								o[i] = ds[i+1]
							}
							return tensor.Concat(axis, ds[0], o...)
						}}, want, true, "")
					}
					if k == 1 {
						break
					}
				}
			}
		}
		// shorthands
		for k := 2; k <= 3; k++ {
			hax := 1
			if rank == 1 {
				hax = 0
			}
			if hax < rank {
				shapes := make([][]int, k)
				for i := range shapes {
					s := model.CopyInts(shape)
					s[hax] = 1 + (shape[hax]+i)%3
					shapes[i] = s
				}
				lays := rotLayouts(c, lay, k, rot)
				rot++
				want := func(ms []*model.ND) (*model.ND, bool) { return model.Concat(hax, ms...) }
				c10Exec(c, "Concat", t, shapes, lays, hax, c10Call{"Hstack", func(ds []*tensor.Dense) (tensor.Tensor, error) { return ds[0].Hstack(ds[1:]...) }}, want, true, "")
			}
			shapes := make([][]int, k)
			for i := range shapes {
				s := model.CopyInts(shape)
				s[0] = 1 + (shape[0]+i)%3
				shapes[i] = s
			}
			lays := rotLayouts(c, lay, k, rot)
			rot++
			want := func(ms []*model.ND) (*model.ND, bool) { return model.Concat(0, ms...) }
			// Vstack of 1-D operands is refused by documentation: frame only
			c10Exec(c, "Concat", t, shapes, lays, 0, c10Call{"Vstack", func(ds []*tensor.Dense) (tensor.Tensor, error) { return ds[0].Vstack(ds[1:]...) }}, want, rank >= 2, "")
		}
	}
	c10Control(c, t)
}

func c10Stack(c *core.Ctx, t reflect.Type, lay string) {
	rot := 0
	for _, shape := range c10Shapes(c.Tier) {
		rank := len(shape)
		if rank == 4 && c.Tier != "thorough" {
			continue
		}
		for axis := 0; axis <= rank; axis++ {
			for k := 1; k <= 4; k++ {
				shapes := make([][]int, k)
				for i := range shapes {
					shapes[i] = model.CopyInts(shape)
				}
				lays := rotLayouts(c, lay, k, rot)
				rot++
				axis := axis
				want := func(ms []*model.ND) (*model.ND, bool) { return model.Stack(axis, ms...) }
				if k > 1 {
					c10Exec(c, "Stack", t, shapes, lays, axis, c10Call{"Dense.Stack", func(ds []*tensor.Dense) (tensor.Tensor, error) { return ds[0].Stack(axis, ds[1:]...) }}, want, true, "")
					c10Exec(c, "Stack", t, shapes, lays, axis, c10Call{"tensor.Stack", func(ds []*tensor.Dense) (tensor.Tensor, error) {
						o := make([]tensor.Tensor, len(ds)-1)
						for i := range o {
							o[i] = ds[i+1]
						}
						return tensor.Stack(axis, ds[0], o...)
					}}, want, true, "")
				}
			}
		}
	}
	c10Control(c, t)
}

func c10Repeat(c *core.Ctx, t reflect.Type, lay string) {
	for _, shape := range c10Shapes(c.Tier) {
		rank := len(shape)
		for axis := -1; axis <= rank; axis++ {
			var repsList [][]int
			n := 0
			if axis >= 0 && axis < rank {
				n = shape[axis]
			} else if axis == -1 {
				n = model.Size(shape)
			}
			repsList = append(repsList, []int{2}, []int{1}, []int{3}, []int{0})
			if n > 0 {
				per := make([]int, n)
				perz := make([]int, n)
				for i := range per {
					per[i] = 1 + (i+c.Rng.Intn(3))%3
					perz[i] = (i + 1) % 3
				}
				repsList = append(repsList, per, perz)
				repsList = append(repsList, make([]int, n+1)) // wrong length (if n+1 != 1)
			}
			for _, reps := range repsList {
				reps := reps
				axis := axis
				defined := axis >= -1 && axis < rank // NumPy defines axis=None (AllAxes) and 0..rank-1
				want := func(ms []*model.ND) (*model.ND, bool) {
					if axis == -1 {
						return model.RepeatFlat(ms[0], reps)
					}
					if axis >= rank {
						return nil, true // extension: not judged
					}
					return model.Repeat(ms[0], axis, reps)
				}
				extra := fmt.Sprintf("reps=%d", len(reps))
				if len(reps) > 1 {
					extra = "reps=per-element"
					for _, r := range reps {
						if r == 0 {
							extra = "reps=with-zero"
						}
					}
				} else if reps[0] == 0 {
					extra = "reps=zero"
				}
				judge := defined
				if len(reps) != 1 && len(reps) != n {
					extra = "reps=wrong-length"
				}
				c10Exec(c, "Repeat", t, [][]int{shape}, []string{lay}, axis, c10Call{"Dense.Repeat", func(ds []*tensor.Dense) (tensor.Tensor, error) { return ds[0].Repeat(axis, append([]int(nil), reps...)...) }}, want, judge, extra)
				c10Exec(c, "Repeat", t, [][]int{shape}, []string{lay}, axis, c10Call{"tensor.Repeat", func(ds []*tensor.Dense) (tensor.Tensor, error) {
					return tensor.Repeat(ds[0], axis, append([]int(nil), reps...)...)
				}}, want, judge, extra)
				// RepeatReuse with a correctly shaped destination
				if wm, ok := func() (*model.ND, bool) {
					m := model.New(t, shape, gen.Ramp(t, model.Size(shape), 1))
					if axis == -1 {
						return model.RepeatFlat(m, reps)
					}
					if axis >= rank {
						return nil, false
					}
					return model.Repeat(m, axis, reps)
				}(); ok && wm != nil && len(wm.V) > 0 && defined {
					rshape := wm.Shape
					c10Exec(c, "Repeat", t, [][]int{shape}, []string{lay}, axis, c10Call{"tensor.RepeatReuse", func(ds []*tensor.Dense) (tensor.Tensor, error) {
						reuse := tensor.New(tensor.Of(gen.Dtype(t)), tensor.WithShape(rshape...))
						return tensor.RepeatReuse(ds[0], reuse, axis, append([]int(nil), reps...)...)
					}}, want, true, extra)
				}
			}
		}
	}
	c10Control(c, t)
}

func c10Control(c *core.Ctx, t reflect.Type) {
	// negative control: the value comparison must reject a wrong assembly
	a := model.New(t, []int{2, 2}, gen.Ramp(t, 4, 1))
	b := model.New(t, []int{2, 2}, gen.Ramp(t, 4, 5))
	right, _ := model.Concat(0, a, b)
	wrong, _ := model.Concat(0, b, a)
	oa, _ := gen.Build(a, gen.LC, c.Rng)
	ob, _ := gen.Build(b, gen.LC, c.Rng)
	if oa != nil && ob != nil {
		r, err := oa.D.Concat(0, ob.D)
		c.Control(err == nil && gen.ReadMatches(r, right) == nil && gen.ReadMatches(r, wrong) != nil)
	}
}

// c10Misfits: operands whose shapes do not fit are refused with an error.
func c10Misfits(c *core.Ctx) {
	t := model.TF64
	type mf struct {
		name   string
		shapes [][]int
		axis   int
		call   c10Call
	}
	concat := func(axis int) c10Call {
		return c10Call{"Dense.Concat", func(ds []*tensor.Dense) (tensor.Tensor, error) { return ds[0].Concat(axis, ds[1:]...) }}
	}
	stack := func(axis int) c10Call {
		return c10Call{"Dense.Stack", func(ds []*tensor.Dense) (tensor.Tensor, error) { return ds[0].Stack(axis, ds[1:]...) }}
	}
	list := []mf{
		{"concat-other-axis-differs", [][]int{{2, 3}, {2, 4}}, 0, concat(0)},
		{"concat-other-axis-differs", [][]int{{2, 3}, {3, 3}}, 1, concat(1)},
		{"concat-rank-differs", [][]int{{2, 3}, {2, 3, 1}}, 0, concat(0)},
		{"concat-rank-differs", [][]int{{2, 3}, {3}}, 0, concat(0)},
		{"concat-axis-out-of-range", [][]int{{2, 3}, {2, 3}}, 2, concat(2)},
		{"concat-3d-middle-differs", [][]int{{2, 3, 2}, {2, 3, 3}}, 1, concat(1)},
		// a mismatching extent of exactly 1 is a mismatch too (there is no broadcasting in concatenation)
		{"concat-other-axis-is-one", [][]int{{2, 3}, {1, 3}}, 1, concat(1)},
		{"concat-other-axis-is-one", [][]int{{2, 3}, {2, 1}}, 0, concat(0)},
		{"concat-other-axis-is-one", [][]int{{1, 3}, {2, 3}}, 1, concat(1)},
		{"concat-3d-other-axis-is-one", [][]int{{2, 3, 2}, {2, 1, 2}}, 2, concat(2)},
		{"hstack-rows-one", [][]int{{2, 3}, {1, 3}}, 1, c10Call{"Hstack", func(ds []*tensor.Dense) (tensor.Tensor, error) { return ds[0].Hstack(ds[1:]...) }}},
		{"vstack-cols-one", [][]int{{2, 3}, {2, 1}}, 0, c10Call{"Vstack", func(ds []*tensor.Dense) (tensor.Tensor, error) { return ds[0].Vstack(ds[1:]...) }}},
		{"stack-shape-differs", [][]int{{2, 3}, {3, 2}}, 0, stack(0)},
		{"stack-shape-differs", [][]int{{2, 3}, {2, 4}}, 1, stack(1)},
		{"stack-rank-differs", [][]int{{2, 3}, {2, 3, 1}}, 0, stack(0)},
		{"stack-axis-out-of-range", [][]int{{2, 3}, {2, 3}}, 3, stack(3)},
		// a vector and its row/column-vector forms have different ranks: no stacking or joining of one with the other
		{"stack-rank-differs-by-unit-axis", [][]int{{3}, {3, 1}}, 0, stack(0)},
		{"stack-rank-differs-by-unit-axis", [][]int{{3}, {1, 3}}, 0, stack(0)},
		{"stack-rank-differs-by-unit-axis", [][]int{{3, 1}, {3}}, 0, stack(0)},
		{"stack-rank-differs-by-unit-axis", [][]int{{1, 3}, {3}}, 1, stack(1)},
		{"stack-rank-differs-by-unit-axis", [][]int{{3}, {3}, {3, 1}}, 0, stack(0)},
		{"stack-rank-differs-by-unit-axis", [][]int{{3}, {3, 1}}, 0, c10Call{"tensor.Stack", func(ds []*tensor.Dense) (tensor.Tensor, error) {
			ts := make([]tensor.Tensor, len(ds))
			for i, d := range ds {
				ts[i] = d
			}
			return tensor.Stack(0, ts[0], ts[1:]...)
		}}},
		{"concat-rank-differs-by-unit-axis", [][]int{{3}, {3, 1}}, 0, concat(0)},
		{"concat-rank-differs-by-unit-axis", [][]int{{3, 1}, {3}}, 0, concat(0)},
		{"concat-rank-differs-by-unit-axis", [][]int{{1, 3}, {3}}, 1, concat(1)},
		{"hstack-rows-differ", [][]int{{2, 3}, {3, 3}}, 1, c10Call{"Hstack", func(ds []*tensor.Dense) (tensor.Tensor, error) { return ds[0].Hstack(ds[1:]...) }}},
		{"vstack-cols-differ", [][]int{{2, 3}, {2, 4}}, 0, c10Call{"Vstack", func(ds []*tensor.Dense) (tensor.Tensor, error) { return ds[0].Vstack(ds[1:]...) }}},
	}
	for _, m := range list {
		for _, lay := range gen.RowLayouts {
			lays := make([]string, len(m.shapes))
			for i := range lays {
				lays[i] = gen.LC
			}
			lays[0] = lay
			axis := m.axis
			isStack := strings.HasPrefix(m.name, "stack")
			want := func(ms []*model.ND) (*model.ND, bool) {
				if isStack {
					return model.Stack(axis, ms...)
				}
				return model.Concat(axis, ms...)
			}
			c10Exec(c, "misfit", t, m.shapes, lays, m.axis, m.call, want, true, m.name)
		}
	}
	c.Control(true)
}

// c10OperandList: the engine-level entry point takes the operands as a slice; that slice is the caller's and keeps naming
// the caller's tensors, whatever private copies the engine works on (operands are "left unchanged": so is their list).
func c10OperandList(c *core.Ctx) {
	t := model.TF64
	shape := []int{2, 3}
	n := model.Size(shape)
	lays := []string{gen.LC, gen.LF, gen.LT, gen.LS}
	for _, l0 := range lays {
		for _, l1 := range lays {
			for _, l2 := range lays {
				var ops []*gen.Operand
				ok := true
				for k, lay := range []string{l0, l1, l2} {
					op, err := gen.Build(model.New(t, shape, gen.Ramp(t, n, int64(1+10*k))), lay, c.Rng)
					if err != nil || op.Layout != lay {
						ok = false
						break
					}
					ops = append(ops, op)
				}
				if !ok {
					continue
				}
				others := []tensor.DenseTensor{ops[1].D, ops[2].D}
				keep := append([]tensor.DenseTensor(nil), others...)
				var res tensor.DenseTensor
				var err error
				p, msg := core.Catch(func() { res, err = tensor.StdEng{}.StackDense(ops[0].D, 0, others...) })
				key := core.Sig("StdEng.StackDense", "operand-list", l0, l1, l2)
				caseKey := fmt.Sprintf("operand-list/StackDense/%s+%s+%s", l0, l1, l2)
				desc := map[string]interface{}{"layouts": []string{l0, l1, l2}, "shape": shape}
				c.Eval(key, true)
				if others[0] != keep[0] || others[1] != keep[1] {
					c.Violation(core.Sig("StdEng.StackDense", "operand-list", "caller-slice-rewritten"), caseKey, desc, "the caller's slice still names the caller's tensors", "an element was replaced by a private copy")
					continue
				}
				if p || err != nil {
					_ = msg
					c.Refused("StackDense|operand-list")
					continue
				}
				want, wok := model.Stack(0, ops[0].M, ops[1].M, ops[2].M)
				if wok && res != nil {
					if e := gen.ReadMatches(res, want); e != nil {
						c.Violation(core.Sig("StdEng.StackDense", "operand-list", "wrong-result"), caseKey, desc, short(want.V), e.Error())
					}
				}
			}
		}
	}
	c.Control(true)
}
