package props

import (
	"fmt"
	"reflect"

	"gorgonia.org/tensor"
	"verifharness/core"
	"verifharness/gen"
	"verifharness/model"
)

// C06 — elementwise arithmetic is coordinate-wise, exact and layout-blind.

func init() {
	register(&core.Prop{
		ID: "C06",
		Rule: "class matrix: {Add,Sub,Mul,Div,Mod,Pow,MinBetween,MaxBetween} x all 14 numeric element types (+bool,string for the refusal clause) x forms {tensor-tensor, tensor-scalar, scalar-tensor; scalar as Go value and as scalar tensor} x operand layouts {C,T,S,SS,MS(materialised)} independently per operand x shape classes (scalar-like, vector forms, matrix, rank 3, rank 4) x value classes {small distinct, overflow-provoking edges, zero divisors, non-finite floats} x {package function, method}; plus mismatched shapes / element types. " +
			"Both tiers cover the full matrix (all 25 layout pairs for every element type); thorough adds shapes and six independent value draws per class. Oracle: one generic definition per operation instantiated per element type (Go's operator / math function), exact (Pow: <=2 ulp), integer zero divisors excluded at their coordinates; operands unchanged; supported operations must not be refused on any layout. distinct_nontrivial counts distinct class keys on tensors with more than one element and a non-contiguous operand or a scalar form.",
		Assume: []string{"operands are validated (At sweep + raw offsets) before use", "Pow on integers and Mod on complex numbers do not exist in the library's definition; refusing them is allowed"},
		Groups: c06Groups,
	})
}

var c06RepTypes = []reflect.Type{model.TInt8, model.TUint32, model.TF64, model.TC64}

func c06Shapes(tier string) [][]int {
	s := [][]int{{1, 1}, {4}, {3, 1}, {1, 3}, {2, 3}, {2, 3, 2}, {2, 2, 3, 2}}
	if tier == "thorough" {
		s = append(s, []int{1}, []int{5, 4}, []int{3, 1, 2}, []int{1, 1, 4}, []int{3, 2, 1, 2})
	}
	return s
}

func c06ValClasses(t reflect.Type, op string) []string {
	v := []string{"small", "edge"}
	if op == "Div" || op == "Mod" {
		v = append(v, "zero")
	}
	if model.IsFloat(t) || model.IsComplex(t) {
		v = append(v, "nonfin")
	}
	return v
}

func c06Groups(tier string) []core.Group {
	var gs []core.Group
	types := append([]reflect.Type{}, model.NumTypes...)
	for _, op := range arithOps {
		for _, t := range types {
			op, t := op, t
			gs = append(gs, core.Group{Key: fmt.Sprintf("%s/%s", op, model.Name(t)), Run: func(c *core.Ctx) { c06OpType(c, op, t) }})
		}
	}
	gs = append(gs, core.Group{Key: "refusals", Run: c06Refusals})
	return gs
}

func c06OpType(c *core.Ctx, op string, t reflect.Type) {
	full := true // every layout pair for every element type in both tiers; thorough adds shapes and value draws
	lays := gen.ElemLayouts
	rot := 0
	reps := 1
	if c.Tier == "thorough" {
		reps = 6
	}
	for rep := 0; rep < reps; rep++ {
		for _, form := range []string{"TT", "TS", "ST", "TSt", "StT"} {
			for _, shape := range c06Shapes(c.Tier) {
				for _, vc := range c06ValClasses(t, op) {
					for _, api := range []string{"func", "method"} {
						if api == "method" && (form == "TSt" || form == "StT" || op == "MinBetween" || op == "MaxBetween") {
							continue
						}
						var pairs [][2]string
						if form == "TT" {
							if full {
								for _, a := range lays {
									for _, b := range lays {
										pairs = append(pairs, [2]string{a, b})
									}
								}
							} else {
								// rotating pair + the contiguous pair
								pairs = append(pairs, [2]string{gen.LC, gen.LC}, [2]string{lays[rot%5], lays[(rot/5+rot)%5]})
								rot++
							}
						} else {
							if full {
								for _, a := range lays {
									pairs = append(pairs, [2]string{a, ""})
								}
							} else {
								pairs = append(pairs, [2]string{gen.LC, ""}, [2]string{lays[1+rot%4], ""})
								rot++
							}
						}
						for _, p := range pairs {
							c06Case(c, ewSpec{Family: "arith", Op: op, T: t, Form: form, LayA: p[0], LayB: p[1], Mode: "safe", API: api, Shape: shape, Vals: vc})
						}
					}
				}
			}
		}
	}
	// negative control: the comparison must reject a corrupted expectation
	o := ewRun(c, ewSpec{Family: "arith", Op: "Add", T: model.TF64, Form: "TT", LayA: gen.LC, LayB: gen.LT, Mode: "safe", API: "func", Shape: []int{2, 3}, Vals: "small"})
	if o.precond == "" && o.resM != nil {
		bad := &model.ND{T: o.want.T, Shape: o.want.Shape, V: append([]interface{}(nil), o.want.V...)}
		bad.V[0], bad.V[5] = bad.V[5], other(bad.V[0])
		sym, _ := ewCompare(o, bad, model.Equal)
		c.Control(sym != "")
	}
}

func c06Eq(op string) func(a, b interface{}) bool {
	if op == "Pow" {
		return func(a, b interface{}) bool { return model.Close(a, b, 2) }
	}
	return model.Equal
}

func c06Case(c *core.Ctx, sp ewSpec) {
	o := ewRun(c, sp)
	if o.precond != "" {
		if o.precond != "no-such-method" && o.precond != "no-second-tensor" {
			c.Inconclusive(o.precond)
		}
		return
	}
	if o.A.op.Layout != sp.LayA || (o.B != nil && o.B.op.Layout != sp.LayB) {
		return // the shape does not admit the layout; covered by the contiguous class
	}
	n := len(o.want.V)
	nontrivial := n > 1 && (sp.LayA != gen.LC || (sp.LayB != gen.LC && sp.LayB != "") || sp.Form != "TT")
	c.Eval(sp.key(), nontrivial)
	if c.WantSample(sp.Op + "/" + sp.Form) {
		d := sp.desc()
		d["a"] = short(o.A.op.M.V)
		if o.B != nil {
			d["b"] = short(o.B.op.M.V)
		} else {
			d["scalar"] = o.scalar
		}
		d["expected"] = short(o.want.V)
		c.Sample(sp.Op+"/"+sp.Form, d)
	}
	dc := dtypeClass(sp.T)
	lp := layoutPairClass(sp.LayA, sp.LayB)
	viol := func(symptom string, want, got interface{}) {
		c.Violation(core.Sig(sp.Op, sp.Form, lp, sp.API, dc, symptom), sp.caseKey(), sp.desc(), want, got)
	}
	supported := model.BinSupported(sp.Op, sp.T)
	hasUndefined := false
	for _, d := range o.defined {
		if !d {
			hasUndefined = true
		}
	}
	// operands are never changed by a safe call, whatever the outcome
	if !o.A.untouched() {
		viol("operand-changed", "operand a untouched", fmt.Sprint(o.A.changed, " ", o.A.metaDif))
		return
	}
	if o.B != nil && !o.B.untouched() {
		viol("operand-changed", "operand b untouched", fmt.Sprint(o.B.changed, " ", o.B.metaDif))
		return
	}
	if o.panicked {
		if supported && !hasUndefined {
			viol("panic", "a result", o.pmsg)
		} else if hasUndefined {
			c.Refused("zero-divisor-panic")
		} else {
			viol("panic-instead-of-error", "an error", o.pmsg)
		}
		return
	}
	if o.err != nil {
		if !supported {
			c.Refused("unsupported:" + sp.Op + ":" + dc)
			return
		}
		if hasUndefined {
			// integer division by zero: the library reports it; the other coordinates are still owed when a tensor came back
			c.Refused("zero-divisor-error")
			if o.res == nil {
				return
			}
			o.resM, o.resErr = gen.ReadAll(o.res)
		} else {
			viol("refused-supported", "a result", o.err.Error())
			return
		}
	}
	if !supported {
		// not refused: then it must at least be the generic definition (there is none) — computing something is a violation
		viol("computed-unsupported", "an error", "a result")
		return
	}
	if o.resIs != "fresh" {
		viol("safe-result-not-fresh", "a fresh tensor", o.resIs)
		return
	}
	if overlaps(o.res, o.A.op.Root) || (o.B != nil && overlaps(o.res, o.B.op.Root)) {
		viol("safe-result-shares-storage", "fresh storage", "overlaps an operand")
		return
	}
	if sym, detail := ewCompare(o, o.want, c06Eq(sp.Op)); sym != "" {
		if sym == "wrong-values" && ewFloatDivZeroModel(o, c06Eq(sp.Op)) {
			c.Violation(core.Sig("Div", "float", "zero-divisor-gives-+Inf"), sp.caseKey(), sp.desc(), short(o.want.V), detail)
			return
		}
		if h := ewHypothesis(o, c06Eq(sp.Op)); h != "" {
			sym = h
		}
		vc := ""
		if sp.Vals == "zero" || sp.Vals == "nonfin" {
			vc = "|" + sp.Vals
		}
		viol(sym+vc, short(o.want.V), detail)
	}
}

// c06Refusals: mismatched shapes and element types, and element types an operation does not support.
func c06Refusals(c *core.Ctx) {
	type mm struct {
		name   string
		sa, sb []int
		ta, tb reflect.Type
	}
	cases := []mm{
		{"shape-transposed", []int{2, 3}, []int{3, 2}, model.TF64, model.TF64},
		{"shape-length", []int{4}, []int{5}, model.TInt32, model.TInt32},
		{"shape-rank", []int{2, 3}, []int{2, 3, 1}, model.TF32, model.TF32},
		{"shape-size-equal", []int{2, 6}, []int{3, 4}, model.TInt64, model.TInt64},
		{"shape-matrix-vs-vector", []int{2, 3}, []int{6}, model.TF64, model.TF64},
		{"dtype-f64-f32", []int{2, 3}, []int{2, 3}, model.TF64, model.TF32},
		{"dtype-int-int64", []int{2, 3}, []int{2, 3}, model.TInt, model.TInt64},
		{"dtype-u8-i8", []int{4}, []int{4}, model.TUint8, model.TInt8},
		{"dtype-f64-c128", []int{2, 2}, []int{2, 2}, model.TF64, model.TC128},
	}
	for _, op := range arithOps {
		for _, m := range cases {
			for _, lay := range []string{gen.LC, gen.LT, gen.LS} {
				a, pa := ewBuild(c, m.ta, m.sa, lay, ewValues(c, m.ta, model.Size(m.sa), "small", 0), nil, nil)
				b, pb := ewBuild(c, m.tb, m.sb, gen.LC, ewValues(c, m.tb, model.Size(m.sb), "small", 1), nil, nil)
				if pa != "" || pb != "" {
					c.Inconclusive(pa + pb)
					continue
				}
				a.before()
				b.before()
				var res tensor.Tensor
				var err error
				p, msg := core.Catch(func() { res, err = pkgBin[op](a.op.D, b.op.D) })
				a.observe()
				b.observe()
				key := core.Sig("mismatch", op, m.name, lay)
				c.Eval(key, true)
				caseKey := fmt.Sprintf("mismatch/%s/%s/%s", op, m.name, lay)
				desc := map[string]interface{}{"op": op, "kind": m.name, "a": a.op.Recipe, "b": b.op.Recipe}
				if c.WantSample("mismatch") {
					c.Sample("mismatch", desc)
				}
				switch {
				case p:
					c.Violation(core.Sig(op, "mismatch", m.name, "panic-instead-of-error"), caseKey, desc, "an error", msg)
				case err == nil:
					c.Violation(core.Sig(op, "mismatch", m.name, "no-error"), caseKey, desc, "an error", fmt.Sprint(res))
				case !a.untouched() || !b.untouched():
					c.Violation(core.Sig(op, "mismatch", m.name, "operand-changed"), caseKey, desc, "operands untouched", fmt.Sprint(a.changed, b.changed))
				}
				// scalar of another type
				if m.ta != m.tb && m.name[:5] == "dtype" {
					s := model.FromInt(m.tb, 2)
					p, msg := core.Catch(func() { res, err = pkgBin[op](a.op.D, s) })
					c.Eval(core.Sig("mismatch-scalar", op, m.name, lay), true)
					if p {
						c.Violation(core.Sig(op, "mismatch-scalar", m.name, "panic-instead-of-error"), caseKey, desc, "an error", msg)
					} else if err == nil {
						c.Violation(core.Sig(op, "mismatch-scalar", m.name, "no-error"), caseKey, desc, "an error", "a result")
					}
				}
			}
		}
		// unsupported element types: bool and string
		for _, t := range []reflect.Type{model.TBool, model.TStr} {
			a, pa := ewBuild(c, t, []int{2, 2}, gen.LC, gen.Ramp(t, 4, 1), nil, nil)
			b, pb := ewBuild(c, t, []int{2, 2}, gen.LC, gen.Ramp(t, 4, 2), nil, nil)
			if pa != "" || pb != "" {
				continue
			}
			var err error
			var res tensor.Tensor
			p, msg := core.Catch(func() { res, err = pkgBin[op](a.op.D, b.op.D) })
			c.Eval(core.Sig("unsupported", op, model.Name(t)), true)
			caseKey := fmt.Sprintf("unsupported/%s/%s", op, model.Name(t))
			if p {
				c.Violation(core.Sig(op, "unsupported", model.Name(t), "panic-instead-of-error"), caseKey, nil, "an error", msg)
			} else if err == nil {
				// string addition is the one generic definition that exists (concatenation); anything else computed is wrong
				if t == model.TStr && (op == "Add" || op == "MinBetween" || op == "MaxBetween") {
					// strings are ordered and can be concatenated: these have a generic definition, which then must be what is computed
					want := make([]interface{}, 4)
					for i := range want {
						x, y := a.op.M.V[i].(string), b.op.M.V[i].(string)
						switch op {
						case "Add":
							want[i] = x + y
						case "MinBetween":
							want[i] = x
							if y < x {
								want[i] = y
							}
						default:
							want[i] = x
							if y > x {
								want[i] = y
							}
						}
					}
					if rd, ok := res.(*tensor.Dense); !ok || gen.ReadMatches(rd, model.New(t, []int{2, 2}, want)) != nil {
						c.Violation(core.Sig(op, "unsupported", model.Name(t), "computed-something-else"), caseKey, nil, short(want), fmt.Sprint(res))
					}
				} else {
					c.Violation(core.Sig(op, "unsupported", model.Name(t), "no-error"), caseKey, nil, "an error", fmt.Sprint(res))
				}
			}
		}
	}
	c.Control(true)
}
