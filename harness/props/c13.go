package props

import (
	"fmt"
	"reflect"
	"strings"

	"gorgonia.org/tensor"
	"verifharness/core"
	"verifharness/gen"
	"verifharness/model"
)

// C13 — shape algebra agrees with execution.

func init() {
	register(&core.Prop{
		ID: "C13",
		Rule: "calculators vs execution, side by side: Shape.S and AP.S vs Dense.Slice over shapes of rank 1-4 (dims<=5) x the complete per-axis argument set of C02 (full cross product for rank<=2, each-choice + sampled above); Shape.Repeat vs Dense.Repeat over every axis (incl. AllAxes and out-of-range) x uniform/per-element/wrong-length counts; Shape.Concat vs Dense.Concat over fitting and misfitting operand shapes; AP.T vs Dense.T over every permutation and invalid axes lists (repeated, out of range, wrong arity): the predicted shape must equal the produced one and both must fail on exactly the same inputs. " +
			"Reshape: every ordered factorisation of the size (plus unequal sizes) on {C,F,Fconv,T,S,SS,MS} sources: unequal sizes must be refused; a success must preserve the flat element sequence in the tensor's own data order (a lazily transposed tensor: its logical row-major sequence) and never change the elements; only a non-contiguous view may be refused. " +
			"Metadata invariant: size = product of shape and all addressed storage offsets distinct and in bounds, evaluated on every tensor harvested from a reduced replay of the other checks' generators (operands of all 11 layouts and results of every operation family in every mode) and, in the harvest/* groups, on every operand built and every tensor read back while the workloads of C01-C04, C06-C12, C15 and C16 are replayed with their own verdicts discarded (quick: every 6th group of each; thorough: all of them). distinct_nontrivial counts distinct (calculator, argument class) / (reshape source, factorisation) / (harvested producer, layout) keys.",
		Assume: []string{"Shape.Eq's soft vector equality is not used: predicted and produced shapes are compared dimension by dimension"},
		Groups: c13Groups,
	})
}

func c13Groups(tier string) []core.Group {
	var gs []core.Group
	for rank := 1; rank <= 4; rank++ {
		for si, shape := range c02Shapes(tier, rank) {
			shape := shape
			gs = append(gs, core.Group{Key: fmt.Sprintf("slice-calc/r%d#%d%s", rank, si, shapeStr(shape)), Run: func(c *core.Ctx) { c13Slice(c, shape) }})
		}
	}
	gs = append(gs, core.Group{Key: "repeat-calc", Run: c13Repeat})
	gs = append(gs, core.Group{Key: "concat-calc", Run: c13Concat})
	gs = append(gs, core.Group{Key: "transpose-calc", Run: c13Transpose})
	for _, lay := range []string{gen.LC, gen.LF, gen.LFconv, gen.LT, gen.LS, gen.LSS, gen.LMS, gen.LST, gen.LTS, gen.LCSS, gen.LSSS, "Tfull", "Cfull"} {
		lay := lay
		gs = append(gs, core.Group{Key: "reshape/" + lay, Run: func(c *core.Ctx) { c13Reshape(c, lay) }})
	}
	for _, lay := range gen.AllLayouts {
		lay := lay
		gs = append(gs, core.Group{Key: "invariant/" + lay, Run: func(c *core.Ctx) { c13Harvest(c, lay) }})
	}
	// the workloads of the other checks, replayed with their own verdicts discarded: the invariant is evaluated on every
	// operand their factory builds and on every tensor they read back (quick: every 6th group of each, at their quick size;
	// thorough: every group at their quick size)
	every := 6
	if tier == "thorough" {
		every = 1
	}
	for _, pid := range c13HarvestFrom {
		p := Get(pid)
		if p == nil {
			continue
		}
		for gi, g := range p.Groups("quick") {
			if gi%every != 0 {
				continue
			}
			pid, g := pid, g
			gs = append(gs, core.Group{Key: "harvest/" + pid + "/" + g.Key, Run: func(c *core.Ctx) { c13HarvestGroup(c, pid, g) }})
		}
	}
	return gs
}

// c13HarvestFrom names the checks whose workloads are replayed for the metadata invariant (single-process, tensor-producing ones).
var c13HarvestFrom = []string{"C01", "C02", "C03", "C04", "C06", "C07", "C08", "C09", "C10", "C11", "C12", "C15", "C16"}

func c13HarvestGroup(c *core.Ctx, pid string, g core.Group) {
	seen := 0
	bad := map[string]bool{}
	gen.OnTensor = func(d *tensor.Dense, role string) {
		seen++
		var s string
		if p, msg := core.Catch(func() { s = c13Invariant(d) }); p {
			s = "panic:" + msg
		}
		if s != "" {
			sig := core.Sig("invariant", "harvest", pid, strings.SplitN(role, ":", 2)[0], s)
			if !bad[sig+role] {
				bad[sig+role] = true
				c.Violation(sig, "harvest/"+pid+"/"+g.Key, map[string]interface{}{"replayed_check": pid, "group": g.Key, "role": role},
					"distinct in-bounds offsets, size=prod(shape)", fmt.Sprint(s, " shape ", d.Shape(), " strides ", d.Strides(), " datasize ", d.DataSize()))
			}
		}
	}
	defer func() { gen.OnTensor = nil }()
	sub := core.NewMutedCtx(c, pid, g.Key)
	p, msg := core.Catch(func() { g.Run(sub) })
	gen.OnTensor = nil
	if p {
		c.Inconclusive("harvest-replay-panicked:" + pid)
		_ = msg
		return
	}
	c.EvalN(core.Sig("invariant", "harvest", pid), true, seen)
	c.Extra("harvested_tensors:"+pid, seen)
}

func shapeOf(t tensor.Tensor) []int {
	if t.Shape().IsScalar() {
		return []int{}
	}
	return model.CopyInts([]int(t.Shape()))
}

func normShape(s tensor.Shape) []int {
	if s.IsScalar() {
		return []int{}
	}
	return model.CopyInts([]int(s))
}

// agree judges a calculator against the execution.
func c13Agree(c *core.Ctx, calc string, argClass string, caseKey string, desc interface{}, predShape []int, predErr error, predPanic string, execShape []int, execErr error, execPanic string) {
	c.Eval(core.Sig(calc, argClass), true)
	if c.WantSample(calc) {
		c.Sample(calc, desc)
	}
	pFail := predErr != nil || predPanic != ""
	eFail := execErr != nil || execPanic != ""
	switch {
	case predPanic != "":
		c.Violation(core.Sig(calc, argClass, "calculator-panics"), caseKey, desc, "shape or error", predPanic)
	case pFail != eFail:
		c.Violation(core.Sig(calc, argClass, "error-differs"), caseKey, desc, fmt.Sprintf("execution fails=%v (%v%s)", eFail, execErr, execPanic), fmt.Sprintf("calculator fails=%v (%v)", pFail, predErr))
	case !pFail && !gen.ShapeEq(predShape, execShape):
		c.Violation(core.Sig(calc, argClass, "shape-differs"), caseKey, desc, fmt.Sprint("execution ", execShape), fmt.Sprint("calculator ", predShape))
	}
}

func c13Slice(c *core.Ctx, shape []int) {
	c13SliceOn(c, shape, gen.LC)
	if len(shape) >= 2 {
		// the calculators know nothing of data order: execution on a column-major tensor has to agree with them as well
		c13SliceOn(c, shape, gen.LF)
	}
}

func c13SliceOn(c *core.Ctx, shape []int, srcLay string) {
	rank := len(shape)
	op := c02Source(c, srcLay, shape, model.TInt16)
	if op == nil {
		return
	}
	args := make([][]axArg, rank)
	for i, d := range shape {
		args[i] = axisArgs(d)
	}
	run := func(specs []model.SliceSpec) {
		sl := make([]tensor.Slice, len(specs))
		cls := make([]string, len(specs))
		for i, s := range specs {
			sl[i] = toSlice(s)
			if i < rank {
				cls[i] = specClass(s, shape[i])
				if !model.SliceValid(s, shape[i]) {
					cls[i] = "invalid"
				}
				if i == 0 && (cls[i] == "step-rem" || cls[i] == "step-rem+clamped" || cls[i] == "step-gt-span" || cls[i] == "step-gt-span+clamped") {
					cls[i] = "axis0:" + cls[i]
				}
			}
		}
		var v tensor.View
		var eerr error
		ep, emsg := core.Catch(func() { v, eerr = op.D.Slice(sl...) })
		var es []int
		if !ep && eerr == nil {
			es = shapeOf(v)
		}
		if !ep {
			emsg = ""
		}
		argClass := strings.Join(uniq(cls), ",")
		if srcLay != gen.LC {
			argClass = srcLay + ":" + argClass
		}
		caseKey := fmt.Sprintf("%s%s%s", srcLay, shapeStr(shape), specsStr(specs))
		desc := map[string]interface{}{"shape": shape, "slices": specsStr(specs)}
		// Shape.S
		var ps tensor.Shape
		var perr error
		pp, pmsg := core.Catch(func() { ps, perr = tensor.Shape(model.CopyInts(shape)).S(sl...) })
		if !pp {
			pmsg = ""
		}
		var psn []int
		if !pp && perr == nil {
			psn = normShape(ps)
		}
		c13Agree(c, "Shape.S", argClass, "Shape.S/"+caseKey, desc, psn, perr, pmsg, es, eerr, emsg)
		// AP.S on an independently built access pattern
		order := tensor.DataOrder(0)
		if srcLay == gen.LF {
			order = tensor.ColMajor
		}
		ap := tensor.MakeAP(tensor.Shape(model.CopyInts(shape)), defaultStrides(shape, srcLay == gen.LF), order, 0)
		var nap tensor.AP
		pp, pmsg = core.Catch(func() { nap, _, _, perr = ap.S(model.Size(shape), sl...) })
		if !pp {
			pmsg = ""
		}
		psn = nil
		if !pp && perr == nil {
			psn = normShape(nap.Shape())
		}
		c13Agree(c, "AP.S", argClass, "AP.S/"+caseKey, desc, psn, perr, pmsg, es, eerr, emsg)
	}
	total := 1
	for _, a := range args {
		total *= len(a)
	}
	if rank <= 2 || total <= 30000 {
		lens := make([]int, rank)
		for i := range lens {
			lens[i] = len(args[i])
		}
		model.Each(lens, func(ix []int, _ int) {
			specs := make([]model.SliceSpec, rank)
			for i := range specs {
				specs[i] = args[i][ix[i]].spec
			}
			run(specs)
		})
	} else {
		for ax := 0; ax < rank; ax++ {
			for _, a := range args[ax] {
				specs := make([]model.SliceSpec, rank)
				for i := range specs {
					specs[i] = randValidBiased(args[i], c.Rng)
				}
				specs[ax] = a.spec
				run(specs)
			}
		}
		n := 2000
		if c.Tier == "thorough" {
			n = 20000
		}
		for k := 0; k < n; k++ {
			specs := make([]model.SliceSpec, 1+c.Rng.Intn(rank))
			for i := range specs {
				specs[i] = randValidBiased(args[i], c.Rng)
			}
			run(specs)
		}
	}
	// too many slices
	long := make([]model.SliceSpec, rank+1)
	for i := range long {
		long[i] = model.SliceSpec{Nil: true}
	}
	run(long)
	c.Control(true)
}

func c13Repeat(c *core.Ctx) {
	shapes := [][]int{{3}, {1}, {2, 3}, {3, 1}, {1, 3}, {2, 3, 2}, {2, 1, 3}, {2, 2, 2, 3}, {1, 1}}
	for _, shape := range shapes {
		rank := len(shape)
		op := c02Source(c, gen.LC, shape, model.TF32)
		if op == nil {
			continue
		}
		for axis := -1; axis <= rank+1; axis++ {
			n := 1
			if axis >= 0 && axis < rank {
				n = shape[axis]
			} else if axis == -1 {
				n = model.Size(shape)
			}
			repsList := [][]int{{2}, {1}, {0}, {3}}
			per := make([]int, n)
			for i := range per {
				per[i] = (i % 3) + 1
			}
			repsList = append(repsList, per, make([]int, n+1), []int{1, 2})
			for _, reps := range repsList {
				var res tensor.Tensor
				var eerr error
				ep, emsg := core.Catch(func() { res, eerr = op.D.Repeat(axis, append([]int(nil), reps...)...) })
				var es []int
				if !ep && eerr == nil {
					es = shapeOf(res)
				}
				if !ep {
					emsg = ""
				}
				var ps tensor.Shape
				var perr error
				pp, pmsg := core.Catch(func() {
					ps, _, _, perr = tensor.Shape(model.CopyInts(shape)).Repeat(axis, append([]int(nil), reps...)...)
				})
				if !pp {
					pmsg = ""
				}
				var psn []int
				if !pp && perr == nil {
					psn = model.CopyInts([]int(ps))
				}
				cls := "axis-in-range"
				switch {
				case axis == -1:
					cls = "all-axes"
				case axis >= rank:
					cls = "axis-beyond-rank"
				}
				rc := "uniform"
				if len(reps) != 1 {
					rc = "per-element"
					if len(reps) != n {
						rc = "wrong-length"
					}
				}
				c13Agree(c, "Shape.Repeat", cls+","+rc+","+shapeClass(shape), fmt.Sprintf("Shape.Repeat/%s/axis%d/%v", shapeStr(shape), axis, reps),
					map[string]interface{}{"shape": shape, "axis": axis, "repeats": reps}, psn, perr, pmsg, es, eerr, emsg)
			}
		}
	}
	c.Control(true)
}

func c13Concat(c *core.Ctx) {
	type cc struct {
		shapes [][]int
		axis   int
	}
	var list []cc
	bases := [][]int{{3}, {2, 3}, {3, 1}, {1, 3}, {2, 3, 2}, {2, 2, 2, 3}}
	for _, b := range bases {
		for axis := -1; axis <= len(b); axis++ {
			for k := 1; k <= 3; k++ {
				fit := make([][]int, k+1)
				for i := range fit {
					s := model.CopyInts(b)
					if axis >= 0 && axis < len(b) {
						s[axis] = 1 + i
					}
					fit[i] = s
				}
				list = append(list, cc{fit, axis})
				// misfit: another axis differs
				if len(b) >= 2 {
					mis := make([][]int, k+1)
					for i := range mis {
						mis[i] = model.CopyInts(b)
					}
					o := (axis + 1 + len(b)) % len(b)
					mis[k][o]++
					list = append(list, cc{mis, axis})
				}
				// misfit: rank differs
				rk := make([][]int, k+1)
				for i := range rk {
					rk[i] = model.CopyInts(b)
				}
				rk[k] = append(rk[k], 1)
				list = append(list, cc{rk, axis})
			}
		}
	}
	for _, x := range list {
		var ds []*tensor.Dense
		var ss []tensor.Shape
		ok := true
		for _, sh := range x.shapes {
			op := c02Source(c, gen.LC, sh, model.TF64)
			if op == nil {
				ok = false
				break
			}
			ds = append(ds, op.D)
			ss = append(ss, tensor.Shape(model.CopyInts(sh)))
		}
		if !ok {
			continue
		}
		var res *tensor.Dense
		var eerr error
		ep, emsg := core.Catch(func() { res, eerr = ds[0].Concat(x.axis, ds[1:]...) })
		var es []int
		if !ep && eerr == nil {
			es = shapeOf(res)
		}
		if !ep {
			emsg = ""
		}
		var ps tensor.Shape
		var perr error
		pp, pmsg := core.Catch(func() { ps, perr = ss[0].Concat(x.axis, ss[1:]...) })
		if !pp {
			pmsg = ""
		}
		var psn []int
		if !pp && perr == nil {
			psn = model.CopyInts([]int(ps))
		}
		cls := "axis-in-range"
		if x.axis < 0 {
			cls = "axis-negative"
		} else if x.axis >= len(x.shapes[0]) {
			cls = "axis-beyond-rank"
		}
		_, fits := model.Concat(x.axis, func() []*model.ND {
			var ms []*model.ND
			for _, sh := range x.shapes {
				ms = append(ms, model.New(model.TF64, sh, gen.Ramp(model.TF64, model.Size(sh), 1)))
			}
			return ms
		}()...)
		fc := "misfit"
		if fits {
			fc = "fits"
		}
		c13Agree(c, "Shape.Concat", cls+","+fc+","+shapeClass(x.shapes[0]), fmt.Sprintf("Shape.Concat/%v/axis%d", x.shapes, x.axis),
			map[string]interface{}{"shapes": x.shapes, "axis": x.axis}, psn, perr, pmsg, es, eerr, emsg)
	}
	c.Control(true)
}

func c13Transpose(c *core.Ctx) {
	shapes := [][]int{{}, {3}, {2, 3}, {3, 1}, {1, 3}, {1, 1}, {2, 3, 4}, {2, 1, 3}, {3, 3, 3}, {2, 3, 2, 2}}
	for _, shape := range shapes {
		rank := len(shape)
		var axesList [][]int
		axesList = append(axesList, nil)
		if rank <= 4 {
			axesList = append(axesList, model.Perms(rank)...)
		}
		if rank >= 1 {
			rep := make([]int, rank)
			axesList = append(axesList, rep) // repeated axis 0
			oor := make([]int, rank)
			for i := range oor {
				oor[i] = i
			}
			oor[rank-1] = rank
			axesList = append(axesList, oor)
			neg := make([]int, rank)
			for i := range neg {
				neg[i] = i
			}
			neg[0] = -1
			axesList = append(axesList, neg)
			axesList = append(axesList, make([]int, rank+1), []int{0})
		}
		for _, axes := range axesList {
			op := c02Source(c, gen.LC, shape, model.TInt32)
			if op == nil {
				continue
			}
			cls := "valid"
			if axes != nil && !model.IsPerm(axes, rank) {
				cls = "invalid-axes"
			}
			before := gen.MetaOf(op.D)
			var eerr error
			ep, emsg := core.Catch(func() { eerr = op.D.T(append([]int(nil), axes...)...) })
			var es []int
			if !ep && eerr == nil {
				es = shapeOf(op.D)
			}
			if !ep {
				emsg = ""
			}
			// an invalid request must leave the tensor as it was and must not be "served"
			if cls == "invalid-axes" && !ep && eerr == nil {
				c.Violation(core.Sig("Dense.T", "invalid-axes", "accepted"), fmt.Sprintf("Dense.T/%s/%v", shapeStr(shape), axes), map[string]interface{}{"shape": shape, "axes": axes}, "an error", fmt.Sprint("shape now ", es, " ", before.Diff(gen.MetaOf(op.D))))
			}
			ap := tensor.MakeAP(tensor.Shape(model.CopyInts(shape)), defaultStrides(shape, false), 0, 0)
			var nap tensor.AP
			var perr error
			pp, pmsg := core.Catch(func() { nap, _, perr = ap.T(append([]int(nil), axes...)...) })
			if !pp {
				pmsg = ""
			}
			// a no-op transpose is reported through a NoOpError by the calculator and as success by the method
			if _, isNoop := perr.(tensor.NoOpError); isNoop {
				perr = nil
			}
			var psn []int
			if !pp && perr == nil {
				psn = normShape(nap.Shape())
			}
			c13Agree(c, "AP.T", cls+","+shapeClass(shape), fmt.Sprintf("AP.T/%s/%v", shapeStr(shape), axes), map[string]interface{}{"shape": shape, "axes": axes}, psn, perr, pmsg, es, eerr, emsg)
		}
	}
	c.Control(true)
}

func factorisations(n int, maxRank int) [][]int {
	var out [][]int
	var rec func(rem int, cur []int)
	rec = func(rem int, cur []int) {
		if len(cur) > 0 && rem == 1 {
			out = append(out, append([]int(nil), cur...))
		}
		if len(cur) == maxRank {
			return
		}
		for d := 1; d <= rem; d++ {
			if rem%d == 0 && !(d == 1 && len(cur) >= 2) {
				rec(rem/d, append(cur, d))
			}
		}
	}
	rec(n, nil)
	return out
}

func c13Reshape(c *core.Ctx, lay string) {
	shapes := [][]int{{6}, {2, 3}, {3, 2}, {4, 3}, {2, 3, 2}, {2, 2, 3}, {6, 1}, {1, 6}, {2, 3, 2, 2}, {3, 4, 2}}
	if c.Tier != "thorough" {
		shapes = shapes[:7]
	}
	for _, t := range []reflect.Type{model.TInt16, model.TF64, model.TStr} {
		for _, shape := range shapes {
			n := model.Size(shape)
			targets := factorisations(n, 4)
			targets = append(targets, []int{n + 1}, []int{n - 1}, []int{2, n}, []int{}, []int{-1})
			for _, target := range targets {
				srcLay := lay
				switch lay {
				case "Tfull":
					srcLay = gen.LT
				case "Cfull":
					srcLay = gen.LC
				}
				op := c02Source(c, srcLay, shape, t)
				if op == nil {
					continue
				}
				if lay == "Tfull" || lay == "Cfull" {
					// a view covering the whole tensor (Slice with no arguments)
					v, verr := op.D.Slice()
					if verr != nil {
						c.Inconclusive("operand-precondition:" + lay)
						continue
					}
					op.D = v.(*tensor.Dense)
					if gen.ReadMatches(op.D, op.M) != nil {
						c.Inconclusive("operand-precondition:" + lay)
						continue
					}
				}
				if len(target) == 1 && target[0] == -1 {
					// the length of the storage window, where that is not the number of elements (views with gaps and their clones)
					if op.D.DataSize() == n {
						continue
					}
					target = []int{op.D.DataSize()}
				}
				snap := op.Snap()
				before := gen.MetaOf(op.D)
				var err error
				p, msg := core.Catch(func() {
					if gen.ShapeEq(target, []int(op.D.Shape())) {
						// the same shape, handed over as the tensor's own shape slice (t.Reshape(t.Shape()...)): the library has to
						// copy it before it releases the old one
						err = op.D.Reshape(op.D.Shape()...)
					} else {
						err = op.D.Reshape(target...)
					}
				})
				equal := model.Size(target) == n && len(target) > 0
				cls := "equal-size"
				if !equal {
					cls = "unequal-size"
				}
				key := core.Sig("Reshape", lay, model.Name(t), shapeStr(shape), shapeStr(target))
				caseKey := fmt.Sprintf("Reshape/%s/%s/%s->%s", lay, model.Name(t), shapeStr(shape), shapeStr(target))
				desc := map[string]interface{}{"source": op.Recipe, "target": target}
				c.Eval(key, true)
				if c.WantSample("Reshape/" + lay) {
					c.Sample("Reshape/"+lay, desc)
				}
				viol := func(sym string, w, g interface{}) {
					c.Violation(core.Sig("Reshape", lay, cls, sym), caseKey, desc, w, g)
				}
				if ch := op.Changed(snap); len(ch) > 0 && (lay == gen.LS || lay == gen.LSS || lay == gen.LST || lay == gen.LTS) {
					// moving data inside a parent is never allowed for a view
					if out := op.OutsideChanged(snap); len(out) > 0 {
						viol("outside-view-changed", "parent untouched", fmt.Sprint(out))
						continue
					}
				}
				if p {
					viol("panic", "reshape or error", msg)
					continue
				}
				if !equal {
					if err == nil {
						viol("unequal-size-accepted", "an error", fmt.Sprint(op.D.Shape()))
					} else if d := before.Diff(gen.MetaOf(op.D)); d != "" {
						viol("refused-but-changed", "tensor untouched", d)
					}
					continue
				}
				if err != nil {
					if d := before.Diff(gen.MetaOf(op.D)); d != "" {
						viol("refused-but-changed", "tensor untouched", d)
					} else if lay == gen.LS || lay == gen.LSS || lay == gen.LST || lay == gen.LTS || lay == gen.LSSS || lay == gen.LCSS || lay == "Tfull" {
						c.Refused("Reshape|non-contiguous") // (the clone of a stepped slice is not a view, but as little contiguous)
					} else {
						viol("refused-equal-size", "a reshaped tensor", err.Error())
					}
					continue
				}
				// the flat sequence in the tensor's own data order is preserved
				var want *model.ND
				switch lay {
				case gen.LF, gen.LFconv:
					want = model.FromColMajorSeq(t, target, model.ColMajorSeq(op.M))
				default:
					want = model.Reshape(op.M, target)
				}
				if e := gen.ReadMatches(op.D, want); e != nil {
					viol("sequence-not-preserved", short(want.V), e.Error())
					continue
				}
				if s := c13Invariant(op.D); s != "" {
					c.Violation(core.Sig("invariant", "Reshape", lay, s), caseKey, desc, "distinct in-bounds offsets, size=prod(shape)", s)
				}
				// the reshaped tensor is an ordinary tensor of the new shape: nothing is pending on it, so UT() leaves it alone and
				// T() gives what AP.T predicts for the new shape (a transpose that was pending before the reshape must be gone)
				if len(target) >= 2 {
					op.D.UT()
					if e := gen.ReadMatches(op.D, want); e != nil {
						viol("UT-after-reshape-changed-it", short(want.V), e.Error())
						continue
					}
					if terr := op.D.T(); terr == nil {
						rev := model.Reversal(len(target))
						wt := model.Permute(want, rev)
						if e := gen.ReadMatches(op.D, wt); e != nil {
							viol("T-after-reshape-wrong", "shape "+shapeStr(wt.Shape)+" "+short(wt.V), e.Error())
						}
					}
				}
			}
		}
	}
	// negative control: a sequence in the other order must be noticed
	if op := c02Source(c, gen.LC, []int{2, 3}, model.TInt16); op != nil {
		op.D.Reshape(3, 2)
		wrong := model.FromColMajorSeq(model.TInt16, []int{3, 2}, op.M.V)
		c.Control(gen.ReadMatches(op.D, wrong) != nil)
	}
}

// c13Invariant checks size = prod(shape) and that shape x strides address distinct in-bounds storage positions.
func c13Invariant(d *tensor.Dense) string {
	shape := shapeOf(d)
	n := model.Size(shape)
	if d.Size() != n && !(len(shape) == 0 && d.Size() <= 1) {
		return fmt.Sprintf("size-%d-not-product-of-shape", d.Size())
	}
	if len(shape) == 0 {
		return ""
	}
	strides := d.Strides()
	if len(strides) != len(shape) {
		if n <= 1 {
			return ""
		}
		return "strides-arity"
	}
	limit := d.DataSize()
	seen := make(map[int]bool, n)
	bad := ""
	model.Each(shape, func(c []int, _ int) {
		if bad != "" {
			return
		}
		off := 0
		for i := range c {
			off += c[i] * strides[i]
		}
		if off < 0 || off >= limit {
			bad = "offset-out-of-bounds"
			return
		}
		if seen[off] {
			bad = "duplicate-offset"
			return
		}
		seen[off] = true
	})
	return bad
}

// c13Harvest evaluates the metadata invariant on tensors produced by the other checks' generators.
func c13Harvest(c *core.Ctx, lay string) {
	shapes := [][]int{{}, {1}, {4}, {3, 1}, {1, 3}, {2, 3}, {3, 3}, {2, 3, 2}, {1, 2, 3}, {2, 2, 3, 2}}
	check := func(producer string, d *tensor.Dense, desc interface{}) {
		if d == nil {
			return
		}
		c.Eval(core.Sig("invariant", producer, lay), true)
		if s := c13Invariant(d); s != "" {
			c.Violation(core.Sig("invariant", producer, lay, s), fmt.Sprintf("invariant/%s/%s", producer, lay), desc, "distinct in-bounds offsets, size=prod(shape)", fmt.Sprint(s, " shape ", d.Shape(), " strides ", d.Strides(), " datasize ", d.DataSize()))
		}
	}
	asDense := func(t tensor.Tensor, err error) *tensor.Dense {
		if err != nil || t == nil {
			return nil
		}
		d, _ := t.(*tensor.Dense)
		return d
	}
	for _, t := range []reflect.Type{model.TInt8, model.TF32, model.TF64, model.TC128, model.TStr} {
		for _, shape := range shapes {
			mk := func() *gen.Operand {
				m := model.New(t, shape, gen.Ramp(t, model.Size(shape), 1))
				op, err := gen.Build(m, lay, c.Rng)
				if err != nil || op.Layout != lay {
					return nil
				}
				return op
			}
			op := mk()
			if op == nil {
				continue
			}
			desc := op.Recipe
			check("operand", op.D, desc)
			rank := len(shape)
			safe := func(name string, f func() (tensor.Tensor, error)) {
				var r tensor.Tensor
				var err error
				if p, _ := core.Catch(func() { r, err = f() }); !p {
					check(name, asDense(r, err), desc)
				}
			}
			safe("Clone", func() (tensor.Tensor, error) { return op.D.Clone().(tensor.Tensor), nil })
			safe("Materialize", func() (tensor.Tensor, error) { return op.D.Materialize(), nil })
			if rank >= 1 {
				safe("Slice", func() (tensor.Tensor, error) { return op.D.Slice(tensor.S(0, 1)) })
				safe("Slice-step", func() (tensor.Tensor, error) { return op.D.Slice(tensor.S(0, shape[0], 2)) })
				safe("Repeat", func() (tensor.Tensor, error) { return op.D.Repeat(0, 2) })
				if o2 := mk(); o2 != nil {
					safe("Concat", func() (tensor.Tensor, error) { return op.D.Concat(0, o2.D) })
					safe("Stack", func() (tensor.Tensor, error) { return op.D.Stack(0, o2.D) })
				}
			}
			if rank >= 2 {
				safe("SafeT", func() (tensor.Tensor, error) { return op.D.SafeT() })
				safe("tensor.Transpose", func() (tensor.Tensor, error) { return tensor.Transpose(op.D) })
				if o3 := mk(); o3 != nil {
					core.Catch(func() {
						if o3.D.T() == nil {
							check("T", o3.D, desc)
							if o3.D.Transpose() == nil {
								check("Transpose", o3.D, desc)
							}
						}
					})
				}
			}
			if model.IsNumber(t) {
				for _, mode := range []string{"safe", "unsafe", "reuse", "incr"} {
					sp := ewSpec{Family: "arith", Op: "Add", T: t, Form: "TT", LayA: lay, LayB: gen.LC, Mode: mode, Dest: gen.LC, API: "func", Shape: shape, Vals: "small"}
					if len(shape) == 0 {
						continue
					}
					o := ewRun(c, sp)
					if o.precond == "" && o.res != nil {
						check("Add/"+mode, o.res, desc)
						check("Add/"+mode+"/operand", o.A.op.D, desc)
					}
				}
				if len(shape) > 0 {
					o := ewRun(c, ewSpec{Family: "cmp", Op: "Lt", T: t, Form: "TS", LayA: lay, Mode: "bool", API: "func", Shape: shape, Vals: "small"})
					if o.precond == "" && o.res != nil {
						check("Lt", o.res, desc)
					}
					o = ewRun(c, ewSpec{Family: "unary", Op: "Neg", T: t, Form: "T", LayA: lay, Mode: "safe", API: "func", Shape: shape, Vals: "small"})
					if o.precond == "" && o.res != nil {
						check("Neg", o.res, desc)
					}
				}
				if (model.IsInt(t) || model.IsFloat(t)) && rank >= 1 {
					safe("Sum", func() (tensor.Tensor, error) { return op.D.Sum(0) })
					safe("Argmax", func() (tensor.Tensor, error) { return op.D.Argmax(0) })
				}
				if model.IsFloat(t) && rank == 2 {
					if o2 := mk(); o2 != nil {
						core.Catch(func() {
							o2.D.T()
							r, err := op.D.MatMul(o2.D)
							if err == nil {
								check("MatMul", r, desc)
							}
						})
					}
				}
			}
			if rank >= 1 && (lay == gen.LC || lay == gen.LF || lay == gen.LMS) {
				if o4 := mk(); o4 != nil {
					core.Catch(func() {
						if o4.D.Reshape(model.Size(shape)) == nil {
							check("Reshape", o4.D, desc)
						}
					})
				}
			}
		}
	}
	// negative control: an overlapping stride pattern must be flagged
	bad := tensor.New(tensor.WithShape(2, 3), tensor.WithBacking([]float64{1, 2, 3, 4, 5, 6}))
	v, err := bad.Slice(tensor.S(0, 2), tensor.S(0, 2))
	if err == nil {
		vd := v.(*tensor.Dense)
		ok := c13Invariant(vd) == ""
		// corrupt: pretend the view had three columns (runs out of the window / duplicates)
		st := vd.Strides()
		st[0] = 1
		c.Control(ok && c13Invariant(vd) != "")
	}
}
