package props

import (
	"fmt"
	"reflect"

	"verifharness/core"
	"verifharness/gen"
	"verifharness/model"
)

// C12 — unary maths and mapped functions apply the scalar function at every coordinate.

func init() {
	register(&core.Prop{
		ID: "C12",
		Rule: "class matrix: {Neg,Inv,Square,Cube,Abs,Sign,Clamp,Sqrt,Cbrt,InvSqrt,Exp,Log,Log2,Log10,Tanh} and Apply(typed function) x every element type (accepted ones must compute, the others must be refused) x operand layouts {C,T,S,SS,MS} x option modes {safe, unsafe, reuse, incr, reuse aliasing the operand} with contiguous and sliced-view destinations x shape classes x value classes {positive, negative/zero, extremes, NaN/Inf/-0}. " +
			"Oracle: the Go scalar routine of that element type (math, math32, cmplx, integer operators): exact for integer operations and for Neg/Abs/Sign/Square/Cube/Clamp/Inv, within 2 ulp for the transcendental ones; integer 1/0 places no demand; mode semantics and frame as in C07. distinct_nontrivial counts distinct class keys on tensors with more than one element and a non-contiguous operand or a non-safe mode.",
		Assume: []string{"must-serve table: every operation on float32/float64; Neg/Square/Cube/Abs/Sign/Clamp additionally on signed integers; every other (operation, type) pair must be refused or correct"},
		Groups: c12Groups,
	})
}

func c12Shapes(tier string) [][]int {
	if tier == "thorough" {
		return [][]int{{}, {1}, {1, 1}, {4}, {3, 1}, {1, 3}, {2, 3}, {2, 3, 1}, {2, 3, 2}, {2, 2, 3, 2}, {5, 4}}
	}
	return [][]int{{}, {1, 1}, {4}, {1, 3}, {2, 3}, {2, 3, 1}, {2, 3, 2}}
}

func c12Groups(tier string) []core.Group {
	var gs []core.Group
	for _, op := range unaryOps {
		for _, t := range model.AllTypes {
			op, t := op, t
			gs = append(gs, core.Group{Key: fmt.Sprintf("%s/%s", op, model.Name(t)), Run: func(c *core.Ctx) { c12OpType(c, op, t) }})
		}
	}
	return gs
}

func c12OpType(c *core.Ctx, op string, t reflect.Type) {
	vcs := []string{"small", "neg", "edge"}
	if model.IsFloat(t) || model.IsComplex(t) {
		vcs = append(vcs, "nonfin")
	}
	if !model.IsNumber(t) {
		vcs = []string{"small"}
	}
	reps := 1
	if c.Tier == "thorough" {
		reps = 4
	}
	for rep := 0; rep < reps; rep++ {
		for _, mode := range c07UnaryModes {
			dests := []string{""}
			if mode == "reuse" || mode == "incr" {
				dests = []string{gen.LC, gen.LS, gen.LF}
			}
			if mode == "reuse-othertype" || mode == "incr-othertype" {
				dests = []string{gen.LC}
			}
			if (mode == "incr" || mode == "incr-othertype") && !model.IsNumber(t) {
				continue
			}
			for li, lay := range gen.ElemLayouts {
				for si, shape := range c12Shapes(c.Tier) {
					for vi, vc := range vcs {
						if mode != "safe" && (vi+li+si+rep)%2 == 1 {
							continue // every value class meets every mode/layout, on alternating shapes
						}
						for _, dest := range dests {
							sp := ewSpec{Family: "unary", Op: op, T: t, Form: "T", LayA: lay, Mode: mode, Dest: dest, API: "func", Shape: shape, Vals: vc}
							o := ewRun(c, sp)
							if ewJudge(c, o, ewPolicy{eq: c07Eq(sp), mustSupport: ewSupported(sp)}) {
								c.Eval(sp.key(), model.Size(shape) > 1 && (lay != gen.LC || mode != "safe"))
								if c.WantSample(op + "/" + mode) {
									d := sp.desc()
									d["a"] = short(o.A.op.M.V)
									d["expected"] = short(o.want.V)
									c.Sample(op+"/"+mode, d)
								}
							}
						}
					}
				}
			}
		}
	}
	// negative control
	o := ewRun(c, ewSpec{Family: "unary", Op: "Neg", T: model.TF64, Form: "T", LayA: gen.LS, Mode: "safe", API: "func", Shape: []int{2, 3}, Vals: "small"})
	if o.precond == "" && o.resM != nil {
		bad := &model.ND{T: o.want.T, Shape: o.want.Shape, V: append([]interface{}(nil), o.want.V...)}
		bad.V[1] = other(bad.V[1])
		sym, _ := ewCompare(o, bad, model.Equal)
		c.Control(sym != "")
	}
}
