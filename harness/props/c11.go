package props

import (
	"fmt"
	"reflect"

	"verifharness/core"
	"verifharness/gen"
	"verifharness/model"
)

// C11 — elementwise comparisons are coordinate-wise with the documented result type.

func init() {
	register(&core.Prop{
		ID: "C11",
		Rule: "class matrix: {Lt,Gt,Lte,Gte,ElEq,ElNe} x all ordered element types (ElEq/ElNe: every comparable type incl. bool, string, complex) x forms {tensor-tensor, tensor-scalar, scalar-tensor; scalar as Go value and as scalar tensor} x result kinds {bool (default), AsSameType, unsafe (in place, same type), reuse bool, reuse same-type} x all 25 operand-layout pairs {C,T,S,SS,MS} x shape classes x value classes {many equal pairs, distinct, extremes, NaN/Inf/-0} x {function, method}; plus unordered and mismatched element types. " +
			"Oracle: Go's comparison per coordinate in operand order; bool tensor by default, 1/0 of the operand type otherwise; operands unchanged (except the in-place destination); ordered numeric types must be served on every layout, others refused or correct. distinct_nontrivial counts distinct class keys on tensors with more than one element and a non-default result kind, a non-contiguous operand or a scalar form.",
		Assume: []string{"same-type results are not demanded for bool and string tensors"},
		Groups: c11Groups,
	})
}

var c11Kinds = []string{"bool", "same", "unsafe", "reuse-bool", "reuse-same", "reuseB-same", "reuse-unfit"}

func c11Types(op string) []reflect.Type {
	if op == "ElEq" || op == "ElNe" {
		return model.AllTypes
	}
	return append(append([]reflect.Type{}, model.RealTypes...), model.TStr, model.TC64, model.TBool)
}

func c11Shapes(tier string) [][]int {
	if tier == "thorough" {
		return [][]int{{1, 1}, {4}, {3, 1}, {1, 3}, {2, 3}, {2, 3, 2}, {2, 2, 3, 2}, {5, 4}, {1, 1, 4}}
	}
	return [][]int{{1, 1}, {4}, {1, 3}, {2, 3}, {2, 3, 2}, {2, 2, 3, 2}}
}

func c11Groups(tier string) []core.Group {
	var gs []core.Group
	for _, op := range cmpOps {
		for _, t := range c11Types(op) {
			op, t := op, t
			gs = append(gs, core.Group{Key: fmt.Sprintf("%s/%s", op, model.Name(t)), Run: func(c *core.Ctx) { c11OpType(c, op, t) }})
		}
	}
	gs = append(gs, core.Group{Key: "mismatch", Run: c11Mismatch})
	return gs
}

func c11OpType(c *core.Ctx, op string, t reflect.Type) {
	lays := gen.ElemLayouts
	vcs := []string{"eqmix", "small", "edge"}
	if model.IsFloat(t) || model.IsComplex(t) {
		vcs = append(vcs, "nonfin")
	}
	reps := 1
	if c.Tier == "thorough" {
		reps = 4
	}
	for rep := 0; rep < reps; rep++ {
		for _, kind := range c11Kinds {
			if (kind != "bool" && kind != "reuse-bool") && !model.IsNumber(t) {
				continue
			}
			dests := []string{""}
			if kind == "reuse-bool" || kind == "reuse-same" {
				dests = []string{gen.LC, gen.LF}
			}
			if kind == "reuse-unfit" {
				dests = []string{gen.LC}
			}
			for _, form := range []string{"TT", "TS", "ST", "TSt", "StT"} {
				if kind == "reuseB-same" && form != "TT" {
					continue
				}
				for _, api := range []string{"func", "method"} {
					if api == "method" && (form == "TSt" || form == "StT") {
						continue
					}
					var pairs [][2]string
					if form == "TT" {
						for _, a := range lays {
							for _, b := range lays {
								pairs = append(pairs, [2]string{a, b})
							}
						}
					} else {
						for _, a := range lays {
							pairs = append(pairs, [2]string{a, ""})
						}
					}
					for pi, p := range pairs {
						for si, shape := range c11Shapes(c.Tier) {
							// value classes rotate over (pair, shape) so that every class meets every pair within a group
							vc := vcs[(pi+si+rep)%len(vcs)]
							for _, dest := range dests {
								sp := ewSpec{Family: "cmp", Op: op, T: t, Form: form, LayA: p[0], LayB: p[1], Mode: kind, Dest: dest, API: api, Shape: shape, Vals: vc}
								o := ewRun(c, sp)
								if ewJudge(c, o, ewPolicy{eq: model.Same, mustSupport: false}) {
									c.Eval(sp.key(), model.Size(shape) > 1 && (kind != "bool" || p[0] != gen.LC || form != "TT"))
									if c.WantSample(op + "/" + kind) {
										d := sp.desc()
										d["a"] = short(o.A.op.M.V)
										if o.B != nil {
											d["b"] = short(o.B.op.M.V)
										} else {
											d["scalar"] = o.scalar
										}
										d["expected"] = short(o.want.V)
										c.Sample(op+"/"+kind, d)
									}
								}
							}
						}
					}
				}
			}
		}
	}
	// negative control
	o := ewRun(c, ewSpec{Family: "cmp", Op: "Lt", T: model.TF64, Form: "TT", LayA: gen.LC, LayB: gen.LT, Mode: "bool", API: "func", Shape: []int{2, 3}, Vals: "small"})
	if o.precond == "" && o.resM != nil {
		bad := &model.ND{T: o.want.T, Shape: o.want.Shape, V: append([]interface{}(nil), o.want.V...)}
		bad.V[2] = !bad.V[2].(bool)
		sym, _ := ewCompare(o, bad, model.Same)
		c.Control(sym != "")
	}
}

// c11Mismatch: mismatched element types and shapes are refused.
func c11Mismatch(c *core.Ctx) {
	type mm struct {
		name   string
		sa, sb []int
		ta, tb reflect.Type
	}
	cases := []mm{
		{"shape-transposed", []int{2, 3}, []int{3, 2}, model.TF64, model.TF64},
		{"shape-length", []int{4}, []int{5}, model.TInt32, model.TInt32},
		{"shape-rank", []int{2, 3}, []int{2, 3, 1}, model.TF32, model.TF32},
		{"dtype-f64-f32", []int{2, 3}, []int{2, 3}, model.TF64, model.TF32},
		{"dtype-int-int64", []int{2, 3}, []int{2, 3}, model.TInt, model.TInt64},
		{"dtype-u8-i8", []int{4}, []int{4}, model.TUint8, model.TInt8},
		{"dtype-str-f64", []int{4}, []int{4}, model.TStr, model.TF64},
	}
	for _, op := range cmpOps {
		for _, m := range cases {
			for _, lay := range []string{gen.LC, gen.LT, gen.LS} {
				a, pa := ewBuild(c, m.ta, m.sa, lay, ewValues(c, m.ta, model.Size(m.sa), "small", 0), nil, nil)
				b, pb := ewBuild(c, m.tb, m.sb, gen.LC, ewValues(c, m.tb, model.Size(m.sb), "small", 1), nil, nil)
				if pa != "" || pb != "" {
					continue
				}
				a.before()
				b.before()
				var err error
				p, msg := core.Catch(func() { _, err = pkgBin[op](a.op.D, b.op.D) })
				a.observe()
				b.observe()
				c.Eval(core.Sig("mismatch", op, m.name, lay), true)
				caseKey := fmt.Sprintf("mismatch/%s/%s/%s", op, m.name, lay)
				desc := map[string]interface{}{"op": op, "kind": m.name, "a": a.op.Recipe, "b": b.op.Recipe}
				switch {
				case p:
					// the statement says "refused": a panic is a refusal too, as long as nothing was written
					if !a.untouched() || !b.untouched() {
						c.Violation(core.Sig(op, "mismatch", m.name, "operand-changed"), caseKey, desc, "operands untouched", msg)
					} else {
						c.Refused("mismatch-panic")
					}
				case err == nil:
					c.Violation(core.Sig(op, "mismatch", m.name, "no-error"), caseKey, desc, "a refusal", "a result")
				case !a.untouched() || !b.untouched():
					c.Violation(core.Sig(op, "mismatch", m.name, "operand-changed"), caseKey, desc, "operands untouched", fmt.Sprint(a.changed, b.changed))
				}
			}
		}
	}
	c.Control(true)
	c.Sample("mismatch", map[string]interface{}{"kinds": "shape-transposed, shape-length, shape-rank, dtype pairs", "ops": cmpOps})
}
