package props

import (
	"fmt"
	"reflect"

	"gorgonia.org/tensor"
	"verifharness/core"
	"verifharness/gen"
	"verifharness/model"
)

// C09 — linear-algebra products equal the textbook sums of products.

func init() {
	register(&core.Prop{
		ID: "C09",
		Rule: "class matrix: {Inner, MatVecMul, MatMul, Outer, TensorMul/Contract, Dot, Trace} (methods and package functions) x {float32, float64, complex64, complex128} (Trace: all numeric types) x operand shape combinations with dims<=4 (vector forms (n),(n,1),(1,n); matrices; rank-3/4 tensors with every valid single contraction axis pair and pairs of axes, negative axes) x operand layouts {C,T,S,SS,MS} per operand x {safe, reuse, incr}. Integer-valued inputs make every product exact. " +
			"Oracle: the defining sum of products over the operands' logical contents (unconjugated for complex), documented result shape (MatVecMul (m); MatMul/Outer (m,n); Inner/Trace a Go scalar; TensorMul free axes of a then b, (1) for a full contraction; Dot per its documented dispatch, vector-equivalent shapes accepted); operands bit-identical afterwards with unchanged metadata; outcome must be correct or a loud refusal (error/panic), and contiguous operands must be served. distinct_nontrivial counts distinct (product, dtype, shapes, layouts, mode) keys with a non-contiguous operand or a non-safe mode.",
		Assume: []string{"a refusal of a non-contiguous layout is allowed by the statement; a wrong number is not"},
		Groups: c09Groups,
	})
}

var c09Types = []reflect.Type{model.TF32, model.TF64, model.TC64, model.TC128}

func c09Groups(tier string) []core.Group {
	var gs []core.Group
	for _, prod := range []string{"Inner", "MatVecMul", "MatMul", "Outer", "TensorMul", "Dot"} {
		for _, t := range c09Types {
			for _, la := range gen.RowLayouts {
				prod, t, la := prod, t, la
				gs = append(gs, core.Group{Key: fmt.Sprintf("%s/%s/%s", prod, model.Name(t), la), Run: func(c *core.Ctx) { c09Run(c, prod, t, la) }})
			}
		}
	}
	gs = append(gs, core.Group{Key: "Trace", Run: c09Trace})
	return gs
}

// contract computes sum over contracted axes; result axes = free axes of a, then free axes of b.
func contract(a, b *model.ND, axA, axB []int) *model.ND {
	inA := map[int]bool{}
	inB := map[int]bool{}
	for _, x := range axA {
		inA[x] = true
	}
	for _, x := range axB {
		inB[x] = true
	}
	var freeA, freeB, rshape, cshape []int
	for i, d := range a.Shape {
		if !inA[i] {
			freeA = append(freeA, i)
			rshape = append(rshape, d)
		}
	}
	for i, d := range b.Shape {
		if !inB[i] {
			freeB = append(freeB, i)
			rshape = append(rshape, d)
		}
	}
	for _, x := range axA {
		cshape = append(cshape, a.Shape[x])
	}
	if rshape == nil {
		rshape = []int{}
	}
	out := make([]interface{}, model.Size(rshape))
	ca := make([]int, len(a.Shape))
	cb := make([]int, len(b.Shape))
	model.Each(rshape, func(rc []int, r int) {
		var acc complex128
		model.Each(cshape, func(cc []int, _ int) {
			for i, ax := range freeA {
				ca[ax] = rc[i]
			}
			for i, ax := range freeB {
				cb[ax] = rc[len(freeA)+i]
			}
			for i := range axA {
				ca[axA[i]] = cc[i]
				cb[axB[i]] = cc[i]
			}
			acc += model.ToComplex(a.At(ca...)) * model.ToComplex(b.At(cb...))
		})
		out[r] = fromComplex(a.T, acc)
	})
	return &model.ND{T: a.T, Shape: rshape, V: out}
}

func fromComplex(t reflect.Type, z complex128) interface{} {
	switch t.Kind() {
	case reflect.Complex64:
		return complex64(z)
	case reflect.Complex128:
		return z
	}
	return model.FromFloat(t, real(z))
}

type c09Case struct {
	name   string
	sa, sb []int
	// expected result from the operand models (nil result shape => Go scalar)
	want   func(a, b *model.ND) *model.ND
	scalar bool // the API returns a Go scalar
	vecEq  bool // vector-equivalent result shapes are accepted
	modes  []string
	call   func(a, b *tensor.Dense, opts []tensor.FuncOpt) (interface{}, error)
}

func vecOf(m *model.ND) *model.ND {
	return &model.ND{T: m.T, Shape: []int{len(m.V)}, V: m.V}
}

func c09Cases(prod string, tier string) []c09Case {
	var cs []c09Case
	vecForms := func(n int) [][]int { return [][]int{{n}, {n, 1}, {1, n}} }
	allModes := []string{"safe", "reuse", "incr"}
	switch prod {
	case "Inner":
		for _, n := range []int{2, 3, 4} {
			for _, fa := range vecForms(n) {
				for _, fb := range vecForms(n) {
					w := func(a, b *model.ND) *model.ND { return contract(vecOf(a), vecOf(b), []int{0}, []int{0}) }
					cs = append(cs, c09Case{"Dense.Inner", fa, fb, w, true, false, []string{"safe"}, func(a, b *tensor.Dense, _ []tensor.FuncOpt) (interface{}, error) { return a.Inner(b) }})
					cs = append(cs, c09Case{"tensor.Inner", fa, fb, w, true, false, []string{"safe"}, func(a, b *tensor.Dense, _ []tensor.FuncOpt) (interface{}, error) { return tensor.Inner(a, b) }})
				}
			}
		}
	case "MatVecMul":
		for _, mn := range [][2]int{{2, 3}, {3, 2}, {4, 4}, {1, 3}, {2, 2}} {
			for _, fb := range vecForms(mn[1]) {
				w := func(a, b *model.ND) *model.ND { return contract(a, vecOf(b), []int{1}, []int{0}) }
				cs = append(cs, c09Case{"Dense.MatVecMul", []int{mn[0], mn[1]}, fb, w, false, false, allModes, func(a, b *tensor.Dense, o []tensor.FuncOpt) (interface{}, error) { return a.MatVecMul(b, o...) }})
				cs = append(cs, c09Case{"tensor.MatVecMul", []int{mn[0], mn[1]}, fb, w, false, false, allModes, func(a, b *tensor.Dense, o []tensor.FuncOpt) (interface{}, error) { return tensor.MatVecMul(a, b, o...) }})
			}
		}
	case "MatMul":
		for _, mkn := range [][3]int{{2, 3, 4}, {3, 2, 3}, {4, 4, 4}, {1, 3, 2}, {3, 1, 3}, {2, 3, 1}, {2, 2, 2}} {
			w := func(a, b *model.ND) *model.ND { return contract(a, b, []int{1}, []int{0}) }
			cs = append(cs, c09Case{"Dense.MatMul", []int{mkn[0], mkn[1]}, []int{mkn[1], mkn[2]}, w, false, false, allModes, func(a, b *tensor.Dense, o []tensor.FuncOpt) (interface{}, error) { return a.MatMul(b, o...) }})
			cs = append(cs, c09Case{"tensor.MatMul", []int{mkn[0], mkn[1]}, []int{mkn[1], mkn[2]}, w, false, false, allModes, func(a, b *tensor.Dense, o []tensor.FuncOpt) (interface{}, error) { return tensor.MatMul(a, b, o...) }})
		}
	case "Outer":
		for _, mn := range [][2]int{{2, 3}, {3, 2}, {4, 2}, {2, 4}, {3, 3}} {
			for _, fa := range vecForms(mn[0]) {
				for _, fb := range vecForms(mn[1]) {
					w := func(a, b *model.ND) *model.ND { return contract(vecOf(a), vecOf(b), nil, nil) }
					cs = append(cs, c09Case{"Dense.Outer", fa, fb, w, false, false, allModes, func(a, b *tensor.Dense, o []tensor.FuncOpt) (interface{}, error) { return a.Outer(b, o...) }})
					cs = append(cs, c09Case{"tensor.Outer", fa, fb, w, false, false, allModes, func(a, b *tensor.Dense, o []tensor.FuncOpt) (interface{}, error) { return tensor.Outer(a, b, o...) }})
				}
			}
		}
	case "TensorMul":
		type tm struct {
			sa, sb   []int
			axA, axB []int
		}
		list := []tm{
			{[]int{2, 3}, []int{3, 4}, []int{1}, []int{0}},
			{[]int{2, 3}, []int{4, 3}, []int{1}, []int{1}},
			{[]int{3, 2}, []int{3, 4}, []int{0}, []int{0}},
			{[]int{2, 3, 4}, []int{3, 2}, []int{1}, []int{0}},
			{[]int{2, 3, 4}, []int{4, 3}, []int{2}, []int{0}},
			{[]int{2, 3, 4}, []int{2, 2}, []int{0}, []int{1}},
			{[]int{2, 3, 4}, []int{4, 3, 2}, []int{2}, []int{0}},
			{[]int{2, 3, 4}, []int{3, 4, 2}, []int{1, 2}, []int{0, 1}},
			{[]int{2, 3, 4}, []int{4, 3, 2}, []int{1, 2}, []int{1, 0}},
			{[]int{2, 3, 4}, []int{2, 3, 4}, []int{0, 1, 2}, []int{0, 1, 2}},
			{[]int{2, 3}, []int{2, 3}, []int{0, 1}, []int{0, 1}},
			{[]int{2, 3, 2, 2}, []int{2, 3}, []int{3}, []int{0}},
			{[]int{2, 3, 2, 2}, []int{3, 2, 4}, []int{1, 2}, []int{0, 1}},
			{[]int{2, 3, 4}, []int{3, 2}, []int{-2}, []int{-2}},
			{[]int{3, 4}, []int{2, 4, 3}, []int{-1}, []int{1}},
			{[]int{4}, []int{4, 2}, []int{0}, []int{0}},
			{[]int{2, 1, 3}, []int{3, 1}, []int{2}, []int{0}},
		}
		// every ORDER in which two (and all three) axes of a rank-3 operand can be listed, against leading, trailing and
		// swapped axes of the other operand: the listing order decides which axis is paired with which, and the
		// implementation permutes its operands according to it (quick: a subset of the other operand's orders)
		sa3 := []int{2, 3, 4}
		for i := 0; i < 3; i++ {
			for j := 0; j < 3; j++ {
				if i == j {
					continue
				}
				for _, axB := range [][]int{{0, 1}, {2, 1}, {1, 0}, {1, 2}, {0, 2}, {2, 0}} {
					if tier != "thorough" && !((axB[0] == 0 && axB[1] == 1) || (axB[0] == 2 && axB[1] == 1)) {
						continue
					}
					sb := []int{2, 2, 2}
					sb[axB[0]], sb[axB[1]] = sa3[i], sa3[j]
					list = append(list, tm{sa3, sb, []int{i, j}, append([]int(nil), axB...)})
				}
			}
		}
		for _, pa := range [][]int{{0, 2, 1}, {1, 0, 2}, {2, 1, 0}, {1, 2, 0}, {2, 0, 1}} {
			sb := []int{sa3[pa[0]], sa3[pa[1]], sa3[pa[2]]}
			list = append(list, tm{sa3, sb, pa, []int{0, 1, 2}})
		}
		for _, x := range list {
			x := x
			norm := func(ax []int, rank int) []int {
				out := make([]int, len(ax))
				for i, v := range ax {
					if v < 0 {
						v += rank
					}
					out[i] = v
				}
				return out
			}
			w := func(a, b *model.ND) *model.ND {
				r := contract(a, b, norm(x.axA, len(x.sa)), norm(x.axB, len(x.sb)))
				if len(r.Shape) == 0 {
					r.Shape = []int{1}
				}
				return r
			}
			cs = append(cs, c09Case{fmt.Sprintf("Dense.TensorMul%v%v", x.axA, x.axB), x.sa, x.sb, w, false, false, []string{"safe"}, func(a, b *tensor.Dense, _ []tensor.FuncOpt) (interface{}, error) {
				return a.TensorMul(b, append([]int(nil), x.axA...), append([]int(nil), x.axB...))
			}})
			cs = append(cs, c09Case{fmt.Sprintf("tensor.Contract%v%v", x.axA, x.axB), x.sa, x.sb, w, false, false, []string{"safe"}, func(a, b *tensor.Dense, _ []tensor.FuncOpt) (interface{}, error) {
				return tensor.Contract(a, b, append([]int(nil), x.axA...), append([]int(nil), x.axB...))
			}})
		}
	case "Dot":
		dot := func(a, b *tensor.Dense, o []tensor.FuncOpt) (interface{}, error) { return tensor.Dot(a, b, o...) }
		// vector . vector (any forms) -> scalar tensor
		for _, fa := range vecForms(3) {
			for _, fb := range vecForms(3) {
				w := func(a, b *model.ND) *model.ND { return contract(vecOf(a), vecOf(b), []int{0}, []int{0}) }
				cs = append(cs, c09Case{"Dot(vec,vec)", fa, fb, w, false, false, allModes, dot})
			}
		}
		// matrix . vector -> vector of m
		for _, fb := range vecForms(3) {
			w := func(a, b *model.ND) *model.ND { return contract(a, vecOf(b), []int{1}, []int{0}) }
			cs = append(cs, c09Case{"Dot(mat,vec)", []int{2, 3}, fb, w, false, true, allModes, dot})
		}
		// vector . matrix -> Bt a
		for _, fa := range vecForms(3) {
			w := func(a, b *model.ND) *model.ND { return contract(vecOf(a), b, []int{0}, []int{0}) }
			cs = append(cs, c09Case{"Dot(vec,mat)", fa, []int{3, 2}, w, false, true, allModes, dot})
		}
		// matrix . matrix
		wmm := func(a, b *model.ND) *model.ND { return contract(a, b, []int{1}, []int{0}) }
		cs = append(cs, c09Case{"Dot(mat,mat)", []int{2, 3}, []int{3, 4}, wmm, false, false, allModes, dot})
		cs = append(cs, c09Case{"Dot(mat,mat)", []int{3, 3}, []int{3, 3}, wmm, false, false, allModes, dot})
		// higher rank: last axis of a with second-to-last of b
		cs = append(cs, c09Case{"Dot(nd,mat)", []int{2, 3, 4}, []int{4, 2}, func(a, b *model.ND) *model.ND { return contract(a, b, []int{2}, []int{0}) }, false, false, allModes, dot})
		cs = append(cs, c09Case{"Dot(nd,nd)", []int{2, 3, 4}, []int{2, 4, 3}, func(a, b *model.ND) *model.ND { return contract(a, b, []int{2}, []int{1}) }, false, false, allModes, dot})
		cs = append(cs, c09Case{"Dot(mat,nd)", []int{2, 3}, []int{2, 3, 2}, func(a, b *model.ND) *model.ND { return contract(a, b, []int{1}, []int{1}) }, false, false, allModes, dot})
	}
	return cs
}

func c09Run(c *core.Ctx, prod string, t reflect.Type, la string) {
	tn := model.Name(t)
	reps := 1
	if c.Tier == "thorough" {
		reps = 8 // independent value draws and layout recipes per class
	}
	for rep := 0; rep < reps; rep++ {
		for _, cs := range c09Cases(prod, c.Tier) {
			for _, lb := range operandLayouts(c) {
				for _, modeDest := range c09ModeDests(c, cs.modes) {
					mode, destLay := modeDest[0], modeDest[1]
					na, nb := model.Size(cs.sa), model.Size(cs.sb)
					a, pa := ewBuild(c, t, cs.sa, la, gen.SmallGauss(t, na, c.Rng, -4, 6), nil, nil)
					b, pb := ewBuild(c, t, cs.sb, lb, gen.SmallGauss(t, nb, c.Rng, -3, 5), nil, nil)
					if pa != "" || pb != "" {
						c.Inconclusive(pa + pb)
						continue
					}
					if a.op.Layout != la || b.op.Layout != lb {
						continue
					}
					want := cs.want(a.op.M, b.op.M)
					var d *ewTensorObs
					var opts []tensor.FuncOpt
					var destInit *model.ND
					if mode != "safe" {
						var pd string
						d, pd = ewBuild(c, t, want.Shape, destLay, gen.SmallGauss(t, len(want.V), c.Rng, 1, 3), nil, nil)
						if pd != "" {
							c.Inconclusive(pd)
							continue
						}
						if d.op.Layout != destLay {
							continue // no such destination for this result shape
						}
						destInit = d.op.M
						if mode == "reuse" {
							opts = append(opts, tensor.WithReuse(d.op.D))
						} else {
							opts = append(opts, tensor.WithIncr(d.op.D))
						}
						d.before()
					}
					a.before()
					b.before()
					var res interface{}
					var err error
					p, msg := core.Catch(func() { res, err = cs.call(a.op.D, b.op.D, opts) })
					a.observe()
					b.observe()
					if d != nil {
						d.observe()
					}
					modeName := mode
					if destLay != gen.LC {
						modeName = mode + "->" + destLay
					}
					key := core.Sig(cs.name, tn, shapeStr(cs.sa), shapeStr(cs.sb), la, lb, modeName)
					caseKey := fmt.Sprintf("%s/%s/%s x %s/%s,%s/%s", cs.name, tn, shapeStr(cs.sa), shapeStr(cs.sb), la, lb, modeName)
					desc := map[string]interface{}{"product": cs.name, "dtype": tn, "a": a.op.Recipe, "b": b.op.Recipe, "mode": modeName, "a_values": short(a.op.M.V), "b_values": short(b.op.M.V)}
					c.Eval(key, la != gen.LC || lb != gen.LC || mode != "safe")
					if c.WantSample(prod + "/" + mode) {
						desc["expected"] = short(want.V)
						c.Sample(prod+"/"+mode, desc)
					}
					viol := func(sym string, w, g interface{}) {
						if c.Flavour == "inplace" && (prod == "TensorMul" || prod == "Dot") && sym == "wrong-product" &&
							((la != gen.LC && la != gen.LMS) || (lb != gen.LC && lb != gen.LMS)) {
							// deviation hypothesis (KF-05): the contraction transposes private copies of its operands; a copy of a lazily
							// transposed tensor or of a view keeps non-default strides, which the in-place mover of this build cannot handle
							c.Violation(core.Sig("transposing-product", "operand-copy-with-non-default-strides", "wrong-product"), caseKey, desc, w, g)
							return
						}
						if en := engineName(); en != "" && engineFor(t) != nil {
							sym += "|engine=" + en
						}
						c.Violation(core.Sig(prod, cs.name, dtypeClass(t), layoutPairClass(la, lb), modeName, sym), caseKey, desc, w, g)
					}
					if len(a.outside) > 0 || len(b.outside) > 0 {
						viol("outside-operand-changed", "untouched", fmt.Sprint(a.outside, b.outside))
						continue
					}
					if !a.untouched() {
						viol("operand-a-changed", "a untouched", fmt.Sprint(a.changed, " ", a.metaDif))
						continue
					}
					if !b.untouched() {
						viol("operand-b-changed", "b untouched", fmt.Sprint(b.changed, " ", b.metaDif))
						continue
					}
					if p || err != nil {
						m := msg
						if err != nil {
							m = err.Error()
						}
						if la == gen.LC && lb == gen.LC && destLay == gen.LC && !(model.IsComplex(t) && (prod == "Dot" || prod == "TensorMul")) { // the contraction and Dot are documented for floats only
							viol("refused-contiguous", "a result", m)
						} else {
							c.Refused(prod + "|" + layoutPairClass(la, lb))
						}
						continue
					}
					if mode == "incr" {
						v := make([]interface{}, len(want.V))
						for i := range v {
							v[i], _ = model.Bin("Add", destInit.V[i], want.V[i])
						}
						want = &model.ND{T: want.T, Shape: want.Shape, V: v}
					}
					if cs.scalar {
						if !model.Equal(res, want.V[0]) {
							viol("wrong-product", want.V[0], res)
						}
						continue
					}
					rt, ok := res.(tensor.Tensor)
					var rd *tensor.Dense
					if ok {
						rd, _ = rt.(*tensor.Dense)
					}
					if rd == nil {
						viol("not-dense", "*Dense", fmt.Sprintf("%T", res))
						continue
					}
					if d != nil && rd != d.op.D {
						viol("wrong-result-identity", "the reuse/incr tensor", "another tensor")
						continue
					}
					got, rerr := gen.ReadAll(rd)
					if rerr != nil {
						viol("result-unreadable", "a tensor", rerr.Error())
						continue
					}
					shapeOK := gen.ShapeEq(got.Shape, want.Shape)
					if !shapeOK && (cs.vecEq || len(want.Shape) == 0) && len(got.V) == len(want.V) {
						// vector-equivalent (or single-element) shapes
						nonunit := 0
						for _, dd := range got.Shape {
							if dd > 1 {
								nonunit++
							}
						}
						shapeOK = nonunit <= 1 && len(got.Shape) <= 2
					}
					if !shapeOK {
						viol("result-shape", fmt.Sprint(want.Shape), fmt.Sprint(got.Shape))
						continue
					}
					bad := ""
					for i := range want.V {
						if !model.Equal(got.V[i], want.V[i]) {
							bad = fmt.Sprintf("element %d is %v, want %v", i, got.V[i], want.V[i])
							break
						}
					}
					if bad != "" {
						viol("wrong-product", short(want.V), bad)
					}
				}
			}
		}
	}
	// negative control
	a, _ := ewBuild(c, t, []int{2, 3}, gen.LC, gen.SmallInts(t, 6, c.Rng, 1, 5), nil, nil)
	b, _ := ewBuild(c, t, []int{3, 2}, gen.LC, gen.SmallInts(t, 6, c.Rng, 1, 5), nil, nil)
	if a != nil && b != nil {
		r, err := a.op.D.MatMul(b.op.D)
		if err == nil {
			wrong := contract(a.op.M, b.op.M, []int{0}, []int{1}) // contracts the wrong axes: shape (3,3)
			c.Control(gen.ReadMatchesBy(r, wrong, model.Equal) != nil)
		} else {
			c.Control(false)
		}
	}
}

func c09Trace(c *core.Ctx) {
	for _, t := range model.NumTypes {
		for _, shape := range [][]int{{2, 2}, {3, 3}, {2, 3}, {3, 2}, {4, 4}, {1, 3}, {3, 1}} {
			for _, lay := range operandLayouts(c) {
				n := model.Size(shape)
				a, pa := ewBuild(c, t, shape, lay, gen.SmallInts(t, n, c.Rng, 1, 9), nil, nil)
				if pa != "" {
					c.Inconclusive(pa)
					continue
				}
				if a.op.Layout != lay {
					continue
				}
				a.before()
				var res interface{}
				var err error
				p, msg := core.Catch(func() { res, err = a.op.D.Trace() })
				a.observe()
				var acc interface{} = model.Zero(t)
				for i := 0; i < shape[0] && i < shape[1]; i++ {
					acc, _ = model.Bin("Add", acc, a.op.M.At(i, i))
				}
				key := core.Sig("Trace", model.Name(t), shapeStr(shape), lay)
				caseKey := fmt.Sprintf("Trace/%s/%s/%s", model.Name(t), shapeStr(shape), lay)
				c.Eval(key, lay != gen.LC)
				if c.WantSample("Trace") {
					c.Sample("Trace", map[string]interface{}{"dtype": model.Name(t), "shape": shape, "layout": lay})
				}
				viol := func(sym string, w, g interface{}) {
					c.Violation(core.Sig("Trace", dtypeClass(t), lay, sym), caseKey, a.op.Recipe, w, g)
				}
				switch {
				case !a.untouched():
					viol("operand-changed", "untouched", fmt.Sprint(a.changed, a.metaDif))
				case p || err != nil:
					if lay == gen.LC {
						viol("refused-contiguous", "a value", fmt.Sprint(msg, err))
					} else {
						c.Refused("Trace|" + lay)
					}
				case !model.Equal(res, acc):
					viol("wrong-trace", acc, res)
				}
			}
		}
	}
	c.Control(true)
}

// c09ModeDests pairs every option mode with the layouts of its destination: contiguous row-major, and for C16 column-major too.
func c09ModeDests(c *core.Ctx, modes []string) [][2]string {
	var out [][2]string
	for _, m := range modes {
		out = append(out, [2]string{m, gen.LC})
		if m != "safe" && c.Prop == "C16" {
			out = append(out, [2]string{m, gen.LF})
		}
	}
	return out
}
