package props

import (
	"fmt"
	"reflect"

	"gonum.org/v1/gonum/mat"
	"gorgonia.org/tensor"
	"gorgonia.org/tensor/native"
	"verifharness/core"
	"verifharness/gen"
	"verifharness/model"
)

// C04 — views alias their source, copies never do, writes stay inside the view.

func init() {
	register(&core.Prop{
		ID: "C04",
		Rule: "writes: views {T,S,SS,ST,TS} (and C,F roots as the degenerate case) over canary-filled harness-owned parents x shapes of rank 1-4 x element types of widths 1-16 bytes and strings x EVERY whole-tensor write {SetAt sweep, Memset, Zero, unsafe Neg/Square/Abs/Clamp, unsafe Add/Sub/Mul/Div (tensor and scalar forms), unsafe Lt/ElEq, Apply(unsafe), tensor.Copy into the view, view as WithReuse and as WithIncr destination}; " +
			"oracle: raw diff of the parent backing (no byte outside the view's element set may change), alias consistency (the view read through At equals raw memory at the harness' offsets, writes through the raw parent are seen by the view), and for fill/zero/copy-into the delivered content. " +
			"copies: {Clone, Materialize, SafeT, tensor.T, tensor.Transpose, tensor.Copy, CopyTo, ToMat64/FromMat64 safe+unsafe, native.Vector/Matrix/Tensor3/Select} x all 11 source layouts: logical equality, address-range disjointness and a two-way write probe. " +
			"distinct_nontrivial counts distinct (operation, layout, dtype, shape class) keys on tensors with more than one element.",
		Assume: []string{"value correctness of arithmetic results is decided by C06/C07/C12; here only where the bytes go", "an operation may refuse (error, nothing written) a view it does not support; refusals are tallied"},
		// the copies and block moves go through unsafe and reflect.SliceHeader: the thorough tier repeats the workload under
		// AddressSanitizer (a report ends the child; the parent turns it into a process-fatal violation naming the open case)
		Flavours: func(tier string) []string {
			if tier == "thorough" {
				return []string{"plain", "asan"}
			}
			return []string{"plain"}
		},
		Groups: c04Groups,
	})
}

var c04ViewLayouts = []string{gen.LT, gen.LS, gen.LSS, gen.LST, gen.LTS, gen.LC, gen.LF, gen.LSSS, gen.LSSR, gen.LTF}

func c04Types(tier string) []reflect.Type {
	if tier == "thorough" {
		return []reflect.Type{model.TBool, model.TInt8, model.TUint16, model.TInt32, model.TF32, model.TF64, model.TInt64, model.TC64, model.TC128, model.TStr}
	}
	return []reflect.Type{model.TInt8, model.TInt16, model.TF32, model.TF64, model.TC128, model.TStr}
}

func c04Shapes(tier string) [][]int {
	s := [][]int{{3}, {2, 3}, {3, 1}, {1, 4}, {3, 3}, {2, 3, 2}, {1, 3, 2}, {2, 1, 3}, {2, 2, 2, 2}, {3, 2, 1, 2}}
	if tier == "thorough" {
		s = append(s, []int{5}, []int{4, 5}, []int{5, 2}, []int{3, 4, 2}, []int{2, 3, 3, 2}, []int{1, 1, 4}, []int{4, 1, 1}, []int{1, 2, 3, 1})
	}
	return s
}

func c04Reps(tier string) int {
	if tier == "thorough" {
		return 40
	}
	return 6
}

func c04Groups(tier string) []core.Group {
	var gs []core.Group
	for _, lay := range c04ViewLayouts {
		for _, t := range c04Types(tier) {
			lay, t := lay, t
			gs = append(gs, core.Group{Key: fmt.Sprintf("write/%s/%s", lay, model.Name(t)), Run: func(c *core.Ctx) {
				for rep := 0; rep < c04Reps(c.Tier); rep++ { // several recipes (margins, steps, permutations) per class
					for _, shape := range c04Shapes(c.Tier) {
						c04Writes(c, lay, t, shape)
					}
				}
			}})
		}
	}
	for _, lay := range gen.AllLayouts {
		for _, t := range c04Types(tier) {
			lay, t := lay, t
			gs = append(gs, core.Group{Key: fmt.Sprintf("copy/%s/%s", lay, model.Name(t)), Run: func(c *core.Ctx) {
				for rep := 0; rep < c04Reps(c.Tier); rep++ {
					for _, shape := range c04Shapes(c.Tier) {
						c04Copies(c, lay, t, shape)
					}
				}
			}})
		}
	}
	// every view of C02's slicing space (complete argument sets, nested slices of slices of transposes), replayed with C02's
	// own verdicts discarded: its copies have to be logically equal to it (quick: every 4th group of C02; thorough: all)
	every := 4
	if tier == "thorough" {
		every = 1
	}
	if p := Get("C02"); p != nil {
		for gi, g := range p.Groups("quick") {
			if gi%every != 0 {
				continue
			}
			g := g
			gs = append(gs, core.Group{Key: "copies-of-sliced/" + g.Key, Run: func(c *core.Ctx) { c04CopiesOfSliced(c, g) }})
		}
	}
	return gs
}

func c04CopiesOfSliced(c *core.Ctx, g core.Group) {
	seen := 0
	c02OnView = func(vd *tensor.Dense, vm *model.ND, caseKey string, desc map[string]interface{}) {
		seen++
		for _, cp := range []struct {
			name string
			do   func() *tensor.Dense
		}{
			{"Materialize", func() *tensor.Dense { r, _ := vd.Materialize().(*tensor.Dense); return r }},
			{"Clone", func() *tensor.Dense { r, _ := vd.Clone().(*tensor.Dense); return r }},
		} {
			var r *tensor.Dense
			if p, msg := core.Catch(func() { r = cp.do() }); p {
				c.Violation(core.Sig(cp.name, "sliced-space", "panic"), "copies-of-sliced/"+caseKey, desc, "a copy", msg)
				continue
			}
			if r == nil {
				continue
			}
			c.Eval(core.Sig(cp.name, "sliced-space", fmt.Sprint(len(vm.Shape))), len(vm.V) > 1)
			if e := gen.ReadMatches(r, vm); e != nil {
				c.Violation(core.Sig(cp.name, "sliced-space", "copy-differs"), "copies-of-sliced/"+caseKey, desc, "logically equal copy", e.Error())
			}
		}
	}
	defer func() { c02OnView = nil }()
	sub := core.NewMutedCtx(c, "C02", g.Key)
	if p, _ := core.Catch(func() { g.Run(sub) }); p {
		c.Inconclusive("replay-of-C02-panicked")
	}
	c02OnView = nil
	c.Extra("views_copied", seen)
}

func c04Operand(c *core.Ctx, lay string, t reflect.Type, shape []int) *gen.Operand {
	n := model.Size(shape)
	var vals []interface{}
	if model.IsNumber(t) {
		vals = gen.SmallInts(t, n, c.Rng, 1, 9)
	} else {
		vals = gen.Ramp(t, n, 1)
	}
	op, err := gen.Build(model.New(t, shape, vals), lay, c.Rng)
	if err != nil {
		c.Inconclusive("operand-precondition:" + lay)
		return nil
	}
	if op.Layout != lay {
		return nil
	}
	if err := op.Validate(); err != nil {
		c.Inconclusive("operand-precondition:" + lay)
		return nil
	}
	return op
}

type c04Write struct {
	name    string
	numeric bool // needs a numeric type
	ordered bool // needs an ordered numeric type
	signedf bool
	content func(m *model.ND) *model.ND // expected content after the write, nil = not judged here
	do      func(op *gen.Operand, other *tensor.Dense) (tensor.Tensor, error)
}

func mapND(m *model.ND, f func(v interface{}) interface{}) *model.ND {
	out := &model.ND{T: m.T, Shape: model.CopyInts(m.Shape), V: make([]interface{}, len(m.V))}
	for i, v := range m.V {
		out.V[i] = f(v)
	}
	return out
}

func c04WriteOps(t reflect.Type) []c04Write {
	fill := other(model.Zero(t))
	two := interface{}(nil)
	if model.IsNumber(t) {
		two = model.FromInt(t, 2)
	}
	ws := []c04Write{
		{name: "Memset", content: func(m *model.ND) *model.ND { return mapND(m, func(interface{}) interface{} { return fill }) },
			do: func(op *gen.Operand, _ *tensor.Dense) (tensor.Tensor, error) { return op.D, op.D.Memset(fill) }},
		{name: "Zero", content: func(m *model.ND) *model.ND { return mapND(m, func(interface{}) interface{} { return model.Zero(t) }) },
			do: func(op *gen.Operand, _ *tensor.Dense) (tensor.Tensor, error) { op.D.Zero(); return op.D, nil }},
		{name: "Copy-into", content: func(m *model.ND) *model.ND { return nil },
			do: func(op *gen.Operand, o *tensor.Dense) (tensor.Tensor, error) { return op.D, tensor.Copy(op.D, o) }},
		// the source has the view's own layout (its clone keeps strides and storage window): a copy that takes a shortcut for
		// "same access pattern" would write the gaps between the view's elements as well
		{name: "Copy-into-from-same-layout", content: func(m *model.ND) *model.ND { return nil },
			do: func(op *gen.Operand, o *tensor.Dense) (tensor.Tensor, error) {
				src, ok := op.D.Clone().(*tensor.Dense)
				if !ok {
					return nil, fmt.Errorf("Clone did not return *Dense")
				}
				var serr error
				model.Each([]int(op.D.Shape()), func(co []int, r int) {
					v, e := o.At(co...)
					if e == nil {
						e = src.SetAt(v, co...)
					}
					if e != nil && serr == nil {
						serr = e
					}
				})
				if serr != nil {
					return nil, serr
				}
				// poison the clone's gaps (storage positions that are not elements) so that copying them is visible
				if raw := reflect.ValueOf(src.Data()); raw.Kind() == reflect.Slice && raw.Len() > len(op.Off) {
					es := int(op.M.T.Size())
					ws := 0
					if es > 0 {
						ws = int(op.D.Uintptr()-op.Root.Uintptr()) / es
					}
					isElem := map[int]bool{}
					for _, off := range op.Off {
						isElem[off-ws] = true
					}
					poison := gen.Canary(op.M.T, 1, 77)[0]
					for i := 0; i < raw.Len(); i++ {
						if !isElem[i] {
							raw.Index(i).Set(reflect.ValueOf(poison))
						}
					}
				}
				return op.D, tensor.Copy(op.D, src)
			}},
		{name: "Neg-unsafe", numeric: true, do: func(op *gen.Operand, _ *tensor.Dense) (tensor.Tensor, error) {
			return tensor.Neg(op.D, tensor.UseUnsafe())
		}},
		{name: "Square-unsafe", numeric: true, do: func(op *gen.Operand, _ *tensor.Dense) (tensor.Tensor, error) {
			return tensor.Square(op.D, tensor.UseUnsafe())
		}},
		{name: "Abs-unsafe", ordered: true, do: func(op *gen.Operand, _ *tensor.Dense) (tensor.Tensor, error) {
			return tensor.Abs(op.D, tensor.UseUnsafe())
		}},
		{name: "Clamp-unsafe", ordered: true, do: func(op *gen.Operand, _ *tensor.Dense) (tensor.Tensor, error) {
			return tensor.Clamp(op.D, model.FromInt(t, 2), model.FromInt(t, 5), tensor.UseUnsafe())
		}},
		{name: "Add-unsafe", numeric: true, do: func(op *gen.Operand, o *tensor.Dense) (tensor.Tensor, error) {
			return tensor.Add(op.D, o, tensor.UseUnsafe())
		}},
		{name: "Sub-unsafe", numeric: true, do: func(op *gen.Operand, o *tensor.Dense) (tensor.Tensor, error) { return op.D.Sub(o, tensor.UseUnsafe()) }},
		{name: "Mul-unsafe", numeric: true, do: func(op *gen.Operand, o *tensor.Dense) (tensor.Tensor, error) {
			return tensor.Mul(op.D, o, tensor.UseUnsafe())
		}},
		{name: "Div-unsafe", numeric: true, do: func(op *gen.Operand, o *tensor.Dense) (tensor.Tensor, error) {
			return tensor.Div(op.D, o, tensor.UseUnsafe())
		}},
		{name: "AddScalar-unsafe", numeric: true, do: func(op *gen.Operand, _ *tensor.Dense) (tensor.Tensor, error) {
			return tensor.Add(op.D, two, tensor.UseUnsafe())
		}},
		{name: "ScalarSub-unsafe", numeric: true, do: func(op *gen.Operand, _ *tensor.Dense) (tensor.Tensor, error) {
			return tensor.Sub(two, op.D, tensor.UseUnsafe())
		}},
		{name: "Lt-unsafe", ordered: true, do: func(op *gen.Operand, o *tensor.Dense) (tensor.Tensor, error) {
			return tensor.Lt(op.D, o, tensor.UseUnsafe())
		}},
		{name: "ElEq-unsafe", numeric: true, do: func(op *gen.Operand, o *tensor.Dense) (tensor.Tensor, error) {
			return tensor.ElEq(op.D, o, tensor.UseUnsafe())
		}},
		{name: "Reuse-dest", numeric: true, do: func(op *gen.Operand, o *tensor.Dense) (tensor.Tensor, error) {
			return tensor.Add(o, o, tensor.WithReuse(op.D))
		}},
		{name: "Incr-dest", numeric: true, do: func(op *gen.Operand, o *tensor.Dense) (tensor.Tensor, error) {
			return tensor.Add(o, o, tensor.WithIncr(op.D))
		}},
	}
	if t == model.TF64 {
		ws = append(ws, c04Write{name: "Apply-unsafe", numeric: true, do: func(op *gen.Operand, _ *tensor.Dense) (tensor.Tensor, error) {
			return op.D.Apply(func(x float64) float64 { return x + 100 }, tensor.UseUnsafe())
		}})
	}
	if t == model.TInt16 {
		ws = append(ws, c04Write{name: "Apply-unsafe", numeric: true, do: func(op *gen.Operand, _ *tensor.Dense) (tensor.Tensor, error) {
			return op.D.Apply(func(x int16) int16 { return x + 100 }, tensor.UseUnsafe())
		}})
	}
	return ws
}

func c04Writes(c *core.Ctx, lay string, t reflect.Type, shape []int) {
	tn := model.Name(t)
	sc := shapeClass(shape)
	for _, w := range c04WriteOps(t) {
		if (w.numeric && !model.IsNumber(t)) || (w.ordered && !(model.IsInt(t) || model.IsFloat(t))) {
			continue
		}
		op := c04Operand(c, lay, t, shape)
		if op == nil {
			return
		}
		// the other operand: a fresh contiguous tensor of the same shape
		ovals := gen.SmallInts(t, len(op.M.V), c.Rng, 2, 5)
		if !model.IsNumber(t) {
			ovals = gen.Ramp(t, len(op.M.V), 50)
		}
		om := model.New(t, shape, ovals)
		oop, err := gen.Build(om, gen.LC, c.Rng)
		if err != nil {
			c.Inconclusive("operand-precondition:other")
			continue
		}
		key := core.Sig(w.name, lay, tn, sc)
		caseKey := fmt.Sprintf("%s/%s/%s/%s", w.name, lay, tn, shapeStr(shape))
		desc := map[string]interface{}{"write": w.name, "view": op.Recipe}
		if c.WantSample("write/" + w.name) {
			c.Sample("write/"+w.name, desc)
		}
		snap := op.Snap()
		osnap := oop.Snap()
		metaBefore := gen.MetaOf(op.D)
		var res tensor.Tensor
		p, msg := core.Catch(func() { res, err = w.do(op, oop.D) })
		c.Eval(key, len(op.M.V) > 1 && lay != gen.LC && lay != gen.LF)
		contig := "noncontig"
		if op.BackingLen() == len(op.Off) {
			contig = "covers-parent"
		}
		// 1. frame: nothing outside the view's element set changed — whatever the outcome
		if ch := op.OutsideChanged(snap); len(ch) > 0 {
			c.Violation(core.Sig(w.name, lay, contig, "outside-view-changed"), caseKey, desc, "parent untouched outside the view", fmt.Sprintf("%d parent positions changed, first %v", len(ch), ch[:min(len(ch), 8)]))
			continue
		}
		if p {
			// a panic is a refusal here only if nothing at all was written
			if ch := op.Changed(snap); len(ch) > 0 {
				c.Violation(core.Sig(w.name, lay, contig, "panic-after-partial-write"), caseKey, desc, "all or nothing", msg)
			} else {
				c.Refused(w.name + "|" + lay + "|panic")
			}
			continue
		}
		if err != nil {
			if ch := op.Changed(snap); len(ch) > 0 && w.name != "Div-unsafe" {
				c.Violation(core.Sig(w.name, lay, contig, "error-after-write"), caseKey, desc, "refusal writes nothing", err.Error())
			} else {
				c.Refused(w.name + "|" + lay)
			}
			continue
		}
		// 2. the other operand is never a destination
		if w.name != "Reuse-dest" && w.name != "Incr-dest" {
			if ch := oop.Changed(osnap); len(ch) > 0 {
				c.Violation(core.Sig(w.name, lay, "other-operand-changed"), caseKey, desc, "only the view is written", fmt.Sprint(ch))
				continue
			}
		}
		// 3. the view's metadata is what it was (a write is not a reshape)
		isDest := w.name == "Reuse-dest" || w.name == "Incr-dest"
		metaAfter := gen.MetaOf(op.D)
		if isDest {
			// what the order flag of a reuse destination becomes is pinned by the suite (Example_differingDataOrders: the operands'); everything else must stay
			metaAfter.Order = metaBefore.Order
		}
		if diff := metaBefore.Diff(metaAfter); diff != "" && !(isDest && (lay == gen.LC || lay == gen.LF || lay == gen.LFconv)) {
			c.Violation(core.Sig(w.name, lay, "view-metadata-changed"), caseKey, desc, "metadata unchanged", diff)
			continue
		}
		// 4. alias consistency: what the view presents is what is in the parent's memory at the view's positions
		cur := op.Current()
		if e := gen.ReadMatches(op.D, cur); e != nil {
			c.Violation(core.Sig(w.name, lay, "view-and-parent-disagree"), caseKey, desc, "view reads parent memory", e.Error())
			continue
		}
		if rd, ok := res.(*tensor.Dense); ok && rd != nil && rd != op.D && w.name != "Copy-into" && w.name != "Copy-into-from-same-layout" {
			// the designated destination is the view; a different result tensor means the view was not the one written
			if e := gen.ReadMatches(rd, cur); e != nil || !overlaps(rd, op.D) {
				c.Violation(core.Sig(w.name, lay, "result-is-not-the-view"), caseKey, desc, "the view itself", fmt.Sprint(e))
				continue
			}
		}
		// 5. content for the writes whose meaning is C04's own
		if w.content != nil {
			want := w.content(op.M)
			if w.name == "Copy-into" || w.name == "Copy-into-from-same-layout" {
				want = om
			}
			if want != nil {
				for r := range want.V {
					if !model.Same(cur.V[r], want.V[r]) {
						c.Violation(core.Sig(w.name, lay, contig, "view-content-wrong"), caseKey, desc, short(want.V), short(cur.V))
						break
					}
				}
			}
		}
	}
	// SetAt sweep + write-through-parent visibility
	op := c04Operand(c, lay, t, shape)
	if op == nil {
		return
	}
	snap := op.Snap()
	key := core.Sig("SetAt-sweep", lay, tn, sc)
	caseKey := fmt.Sprintf("SetAt-sweep/%s/%s/%s", lay, tn, shapeStr(shape))
	bad := false
	model.Each(shape, func(co []int, r int) {
		if bad {
			return
		}
		v := other(op.M.V[r])
		err := op.D.SetAt(v, co...)
		c.Eval(key, len(op.M.V) > 1)
		if err != nil || !model.Same(op.BackingAt(op.Off[r]), v) {
			c.Violation(core.Sig("SetAt-sweep", lay, "write-not-visible-in-parent"), caseKey, op.Recipe, short(v), fmt.Sprint(err, op.BackingAt(op.Off[r])))
			bad = true
			return
		}
		// write through the parent's memory, read through the view
		v2 := other(v)
		setBacking(op, op.Off[r], v2)
		got, err := op.D.At(co...)
		if err != nil || !model.Same(got, v2) {
			c.Violation(core.Sig("SetAt-sweep", lay, "parent-write-not-visible-in-view"), caseKey, op.Recipe, short(v2), fmt.Sprint(got, err))
			bad = true
		}
	})
	if ch := op.OutsideChanged(snap); len(ch) > 0 {
		c.Violation(core.Sig("SetAt-sweep", lay, "outside-view-changed"), caseKey, op.Recipe, "untouched", fmt.Sprint(ch))
	}
	// negative control: a stray write outside the view must be noticed by the frame monitor
	if op.BackingLen() > len(op.Off) {
		in := map[int]bool{}
		for _, o := range op.Off {
			in[o] = true
		}
		for i := 0; i < op.BackingLen(); i++ {
			if !in[i] {
				old := op.BackingAt(i)
				setBacking(op, i, other(old))
				c.Control(len(op.OutsideChanged(snap)) == 1)
				setBacking(op, i, old)
				break
			}
		}
	}
}

func min(a, b int) int {
	if a < b {
		return a
	}
	return b
}

// ---- copies ----

type c04Copy struct {
	name string
	do   func(op *gen.Operand) (res *tensor.Dense, want *model.ND, err error)
}

func c04Copies(c *core.Ctx, lay string, t reflect.Type, shape []int) {
	tn := model.Name(t)
	sc := shapeClass(shape)
	rank := len(shape)
	var perm []int
	if rank >= 2 {
		perm = model.Reversal(rank)
	}
	copies := []c04Copy{
		{"Clone", func(op *gen.Operand) (*tensor.Dense, *model.ND, error) {
			r, ok := op.D.Clone().(*tensor.Dense)
			if !ok {
				return nil, nil, fmt.Errorf("Clone did not return *Dense")
			}
			return r, op.M, nil
		}},
		{"Materialize", func(op *gen.Operand) (*tensor.Dense, *model.ND, error) {
			r, ok := op.D.Materialize().(*tensor.Dense)
			if !ok {
				return nil, nil, fmt.Errorf("Materialize did not return *Dense")
			}
			if r == op.D {
				return nil, nil, nil // not materializable: returns itself, documented
			}
			return r, op.M, nil
		}},
		{"tensor.Copy", func(op *gen.Operand) (*tensor.Dense, *model.ND, error) {
			dst := tensor.New(tensor.Of(gen.Dtype(t)), tensor.WithShape(shape...))
			return dst, op.M, tensor.Copy(dst, op.D)
		}},
		{"CopyTo", func(op *gen.Operand) (*tensor.Dense, *model.ND, error) {
			dst := tensor.New(tensor.Of(gen.Dtype(t)), tensor.WithShape(shape...))
			return dst, op.M, op.D.CopyTo(dst)
		}},
	}
	// destinations that are not plain fresh tensors: a pending transpose, the clone of a stepped slice (owns its storage,
	// keeps the strides), column-major - the copy has to arrive element by element (or be refused)
	for _, dl := range []string{gen.LT, gen.LCSS, gen.LF} {
		dl := dl
		mkDst := func() *tensor.Dense {
			dop, err := gen.Build(model.New(t, shape, gen.Canary(t, model.Size(shape), 77)), dl, c.Rng)
			if err != nil || dop.Layout != dl {
				return nil
			}
			return dop.D
		}
		copies = append(copies,
			c04Copy{"tensor.Copy->" + dl, func(op *gen.Operand) (*tensor.Dense, *model.ND, error) {
				dst := mkDst()
				if dst == nil {
					return nil, nil, nil
				}
				return dst, op.M, tensor.Copy(dst, op.D)
			}},
			c04Copy{"CopyTo->" + dl, func(op *gen.Operand) (*tensor.Dense, *model.ND, error) {
				dst := mkDst()
				if dst == nil {
					return nil, nil, nil
				}
				return dst, op.M, op.D.CopyTo(dst)
			}})
	}
	if perm != nil {
		copies = append(copies,
			c04Copy{"SafeT", func(op *gen.Operand) (*tensor.Dense, *model.ND, error) {
				r, err := op.D.SafeT(perm...)
				return r, model.Permute(op.M, perm), err
			}},
			c04Copy{"tensor.T", func(op *gen.Operand) (*tensor.Dense, *model.ND, error) {
				r, err := tensor.T(op.D, perm...)
				rd, _ := r.(*tensor.Dense)
				return rd, model.Permute(op.M, perm), err
			}},
			c04Copy{"tensor.Transpose", func(op *gen.Operand) (*tensor.Dense, *model.ND, error) {
				r, err := tensor.Transpose(op.D, perm...)
				rd, _ := r.(*tensor.Dense)
				return rd, model.Permute(op.M, perm), err
			}})
	}
	// the degenerate permutations are copies too: identity axes on any rank, no axes on a vector
	ident := make([]int, rank)
	for i := range ident {
		ident[i] = i
	}
	copies = append(copies,
		c04Copy{"SafeT-identity", func(op *gen.Operand) (*tensor.Dense, *model.ND, error) {
			r, err := op.D.SafeT(ident...)
			return r, op.M, err
		}},
		c04Copy{"tensor.T-identity", func(op *gen.Operand) (*tensor.Dense, *model.ND, error) {
			r, err := tensor.T(op.D, ident...)
			rd, _ := r.(*tensor.Dense)
			return rd, op.M, err
		}},
		c04Copy{"tensor.Transpose-identity", func(op *gen.Operand) (*tensor.Dense, *model.ND, error) {
			r, err := tensor.Transpose(op.D, ident...)
			rd, _ := r.(*tensor.Dense)
			return rd, op.M, err
		}})
	if rank == 1 {
		copies = append(copies, c04Copy{"SafeT-vector", func(op *gen.Operand) (*tensor.Dense, *model.ND, error) {
			r, err := op.D.SafeT()
			return r, op.M, err
		}})
	}
	for ci, cp := range append(copies, copies...) {
		op := c04Operand(c, lay, t, shape)
		if op == nil {
			return
		}
		masked := ci >= len(copies)
		if masked {
			// the same copies of a masked source (the copy routines have their own branch for carrying the mask over): the
			// elements still have to arrive
			mk := make([]bool, len(op.M.V))
			for i := range mk {
				mk[i] = c.Rng.Intn(3) == 0
			}
			if len(mk) == 0 || op.AttachMask(mk) != nil {
				continue
			}
		}
		key := core.Sig(cp.name, lay, tn, sc)
		caseKey := fmt.Sprintf("%s/%s/%s/%s", cp.name, lay, tn, shapeStr(shape))
		desc := map[string]interface{}{"copy": cp.name, "source": op.Recipe}
		if masked {
			key = core.Sig(cp.name, lay, tn, sc, "masked-source")
			caseKey += "/masked-source"
			desc["masked_source"] = true
			cp.name += "(masked source)"
		}
		if c.WantSample("copy/" + cp.name) {
			c.Sample("copy/"+cp.name, desc)
		}
		snap := op.Snap()
		meta := gen.MetaOf(op.D)
		var res *tensor.Dense
		var want *model.ND
		var err error
		p, msg := core.Catch(func() { res, want, err = cp.do(op) })
		c.Eval(key, len(op.M.V) > 1)
		if p {
			if len(op.Changed(snap)) > 0 {
				c.Violation(core.Sig(cp.name, lay, "source-changed"), caseKey, desc, "source untouched", "panic after writing: "+msg)
			} else {
				c.Violation(core.Sig(cp.name, lay, "panic"), caseKey, desc, "a copy or an error", msg)
			}
			continue
		}
		if len(op.Changed(snap)) > 0 || meta.Diff(gen.MetaOf(op.D)) != "" {
			c.Violation(core.Sig(cp.name, lay, "source-changed"), caseKey, desc, "source untouched", fmt.Sprint(op.Changed(snap), meta.Diff(gen.MetaOf(op.D))))
			continue
		}
		if err != nil {
			c.Refused(cp.name + "|" + lay)
			continue
		}
		if res == nil {
			continue
		}
		if e := gen.ReadMatches(res, want); e != nil {
			c.Violation(core.Sig(cp.name, lay, "copy-differs"), caseKey, desc, "logically equal copy", e.Error())
			continue
		}
		if overlaps(res, op.Root) {
			c.Violation(core.Sig(cp.name, lay, "copy-shares-storage"), caseKey, desc, "disjoint storage", "address ranges overlap")
			continue
		}
		// two-way write probe
		z := make([]int, len(want.Shape))
		old, _ := res.At(z...)
		if e := res.SetAt(other(old), z...); e == nil {
			if len(op.Changed(snap)) > 0 {
				c.Violation(core.Sig(cp.name, lay, "write-to-copy-visible-in-source"), caseKey, desc, "independent", fmt.Sprint(op.Changed(snap)))
				continue
			}
			res.SetAt(old, z...)
		}
		for _, o := range op.Off {
			setBacking(op, o, other(op.BackingAt(o)))
		}
		if e := gen.ReadMatches(res, want); e != nil {
			c.Violation(core.Sig(cp.name, lay, "write-to-source-visible-in-copy"), caseKey, desc, "independent", e.Error())
		}
	}
	// conversions: same elements
	c04Conversions(c, lay, t, shape)
	// negative control: a wrong expectation must be noticed
	if op := c04Operand(c, lay, t, shape); op != nil && len(op.M.V) > 1 {
		bad := op.M.Clone()
		bad.V[0], bad.V[len(bad.V)-1] = other(bad.V[0]), bad.V[0]
		c.Control(gen.ReadMatches(op.D, bad) != nil)
	}
}

func c04Conversions(c *core.Ctx, lay string, t reflect.Type, shape []int) {
	tn := model.Name(t)
	sc := shapeClass(shape)
	rank := len(shape)
	op := c04Operand(c, lay, t, shape)
	if op == nil {
		return
	}
	desc := map[string]interface{}{"source": op.Recipe}
	snap := op.Snap()
	flatWant := op.M.V
	check := func(name string, got []interface{}, err error, pmsg string, panicked bool) {
		key := core.Sig(name, lay, tn, sc)
		caseKey := fmt.Sprintf("%s/%s/%s/%s", name, lay, tn, shapeStr(shape))
		c.Eval(key, len(op.M.V) > 1)
		if len(op.Changed(snap)) > 0 {
			c.Violation(core.Sig(name, lay, "source-changed"), caseKey, desc, "source untouched", fmt.Sprint(op.Changed(snap)))
			return
		}
		if panicked {
			c.Violation(core.Sig(name, lay, "panic"), caseKey, desc, "same elements or an error", pmsg)
			return
		}
		if err != nil {
			c.Refused(name + "|" + lay)
			return
		}
		if len(got) != len(flatWant) {
			c.Violation(core.Sig(name, lay, "element-count-differs"), caseKey, desc, len(flatWant), len(got))
			return
		}
		for i := range got {
			if !model.Same(got[i], flatWant[i]) {
				c.Violation(core.Sig(name, lay, "elements-differ"), caseKey, desc, short(flatWant), short(got))
				return
			}
		}
	}
	// native conversions through reflection over the generated per-type functions
	nat := func(prefix string, extra ...interface{}) (out []interface{}, err error, ok bool) {
		f, found := nativeFuncs[prefix+tn]
		if !found {
			return nil, nil, false
		}
		args := []reflect.Value{reflect.ValueOf(op.D)}
		for _, e := range extra {
			args = append(args, reflect.ValueOf(e))
		}
		rv := reflect.ValueOf(f).Call(args)
		if !rv[1].IsNil() {
			return nil, rv[1].Interface().(error), true
		}
		var flat func(v reflect.Value)
		flat = func(v reflect.Value) {
			if v.Kind() == reflect.Slice && v.Type().Elem().Kind() == reflect.Slice {
				for i := 0; i < v.Len(); i++ {
					flat(v.Index(i))
				}
				return
			}
			for i := 0; i < v.Len(); i++ {
				out = append(out, v.Index(i).Interface())
			}
		}
		flat(rv[0])
		return out, nil, true
	}
	var prefix string
	switch rank {
	case 1:
		prefix = "Vector"
	case 2:
		prefix = "Matrix"
	case 3:
		prefix = "Tensor3"
	}
	if prefix != "" {
		var got []interface{}
		var err error
		var ok bool
		p, msg := core.Catch(func() { got, err, ok = nat(prefix) })
		if ok || p {
			check("native."+prefix, got, err, msg, p)
		}
	}
	if rank >= 1 {
		var got []interface{}
		var err error
		var ok bool
		p, msg := core.Catch(func() { got, err, ok = nat("Select", 0) })
		if ok || p {
			check("native.Select0", got, err, msg, p)
		}
	}
	// mat64
	if rank == 2 && (model.IsInt(t) || model.IsFloat(t)) {
		for _, mode := range []string{"safe", "unsafe"} {
			var opts []tensor.FuncOpt
			if mode == "unsafe" {
				opts = append(opts, tensor.UseUnsafe())
			}
			var m *mat.Dense
			var err error
			p, msg := core.Catch(func() { m, err = tensor.ToMat64(op.D, opts...) })
			var got []interface{}
			if !p && err == nil {
				r, cc := m.Dims()
				if r != shape[0] || cc != shape[1] {
					err = nil
					got = nil
				}
				for i := 0; i < r; i++ {
					for j := 0; j < cc; j++ {
						got = append(got, reflect.ValueOf(m.At(i, j)).Convert(t).Interface())
					}
				}
			}
			check("ToMat64-"+mode, got, err, msg, p)
			if !p && err == nil && mode == "safe" && m != nil {
				// safe conversion must not alias the tensor
				m.Set(0, 0, m.At(0, 0)+1)
				if len(op.Changed(snap)) > 0 {
					c.Violation(core.Sig("ToMat64-safe", lay, "write-to-copy-visible-in-source"), fmt.Sprintf("ToMat64/%s/%s/%s", lay, tn, shapeStr(shape)), desc, "independent", fmt.Sprint(op.Changed(snap)))
					setBacking(op, op.Changed(snap)[0], reflect.ValueOf(snap).Index(op.Changed(snap)[0]).Interface())
				}
			}
		}
		// FromMat64: elements of the matrix, converted to the requested type
		vals := make([]float64, len(op.M.V))
		for i, v := range op.M.V {
			vals[i] = model.ToFloat(v)
		}
		m := mat.NewDense(shape[0], shape[1], vals)
		for _, mode := range []string{"safe", "unsafe"} {
			opts := []tensor.FuncOpt{tensor.As(gen.Dtype(t))}
			if mode == "unsafe" {
				opts = append(opts, tensor.UseUnsafe())
			}
			var d *tensor.Dense
			p, msg := core.Catch(func() { d = tensor.FromMat64(m, opts...) })
			var got []interface{}
			var err error
			if !p {
				var nd *model.ND
				nd, err = gen.ReadAll(d)
				if err == nil {
					got = nd.V
					if d.Dtype().Type != t {
						err = nil
						got = nil
					}
				}
			}
			check("FromMat64-"+mode, got, err, msg, p)
		}
	}
}

var nativeFuncs = map[string]interface{}{
	"VectorB": native.VectorB, "MatrixB": native.MatrixB, "Tensor3B": native.Tensor3B, "SelectB": native.SelectB,
	"VectorI": native.VectorI, "MatrixI": native.MatrixI, "Tensor3I": native.Tensor3I, "SelectI": native.SelectI,
	"VectorI8": native.VectorI8, "MatrixI8": native.MatrixI8, "Tensor3I8": native.Tensor3I8, "SelectI8": native.SelectI8,
	"VectorI16": native.VectorI16, "MatrixI16": native.MatrixI16, "Tensor3I16": native.Tensor3I16, "SelectI16": native.SelectI16,
	"VectorI32": native.VectorI32, "MatrixI32": native.MatrixI32, "Tensor3I32": native.Tensor3I32, "SelectI32": native.SelectI32,
	"VectorI64": native.VectorI64, "MatrixI64": native.MatrixI64, "Tensor3I64": native.Tensor3I64, "SelectI64": native.SelectI64,
	"VectorU": native.VectorU, "MatrixU": native.MatrixU, "Tensor3U": native.Tensor3U, "SelectU": native.SelectU,
	"VectorU8": native.VectorU8, "MatrixU8": native.MatrixU8, "Tensor3U8": native.Tensor3U8, "SelectU8": native.SelectU8,
	"VectorU16": native.VectorU16, "MatrixU16": native.MatrixU16, "Tensor3U16": native.Tensor3U16, "SelectU16": native.SelectU16,
	"VectorU32": native.VectorU32, "MatrixU32": native.MatrixU32, "Tensor3U32": native.Tensor3U32, "SelectU32": native.SelectU32,
	"VectorU64": native.VectorU64, "MatrixU64": native.MatrixU64, "Tensor3U64": native.Tensor3U64, "SelectU64": native.SelectU64,
	"VectorF32": native.VectorF32, "MatrixF32": native.MatrixF32, "Tensor3F32": native.Tensor3F32, "SelectF32": native.SelectF32,
	"VectorF64": native.VectorF64, "MatrixF64": native.MatrixF64, "Tensor3F64": native.Tensor3F64, "SelectF64": native.SelectF64,
	"VectorC64": native.VectorC64, "MatrixC64": native.MatrixC64, "Tensor3C64": native.Tensor3C64, "SelectC64": native.SelectC64,
	"VectorC128": native.VectorC128, "MatrixC128": native.MatrixC128, "Tensor3C128": native.Tensor3C128, "SelectC128": native.SelectC128,
	"VectorStr": native.VectorStr, "MatrixStr": native.MatrixStr, "Tensor3Str": native.Tensor3Str, "SelectStr": native.SelectStr,
}
