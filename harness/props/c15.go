package props

import (
	"fmt"
	"math"
	"reflect"
	"strings"

	"gorgonia.org/tensor"
	"verifharness/core"
	"verifharness/gen"
	"verifharness/model"
)

// C15 — masks are set, counted, iterated and respected consistently.

func init() {
	register(&core.Prop{
		ID: "C15",
		Rule: "predicates {MaskedEqual, NotEqual, Greater, GreaterEqual, Less, LessEqual, Inside, Outside, Values} x every ordered element type (+ strings for the comparisons) x {soft, hard} x prior mask {none, empty, some, all} x shapes; expected mask = predicate over the elements, replacing a soft mask and accumulating on a hard one. " +
			"Inspection on EVERY mask over n<=8 (thorough 10) elements for shapes (), (n), (n,1), (1,n), (a,b), (a,b,c): MaskedCount/NonMaskedCount/MaskedAny/MaskedAll without and with every axis, FlatMaskedContiguous/FlatNotMaskedContiguous, ClumpMasked/ClumpUnmasked, FlatMaskedEdges/FlatNotMaskedEdges, Filled/FilledInplace (default and given fill value), all recomputed from the model mask. " +
			"Masked operands in a reduced elementwise matrix (Add, Sub, Mul, Lt, ElEq, Neg, Square; safe and unsafe; C and T layouts): at every position valid in all operands the delivered value equals the unmasked result. Mask transport: lazy T, physical Transpose and Slice keep each mask flag on its element. distinct_nontrivial counts distinct (function, dtype/shape, soft/hard, prior or mask pattern) keys with more than one element.",
		Assume: []string{"masks are indexed by storage offset; inspection functions are judged on contiguous tensors, whose flat indices are logical row-major positions"},
		Groups: c15Groups,
	})
}

func c15Groups(tier string) []core.Group {
	var gs []core.Group
	for _, t := range append(append([]reflect.Type{}, model.RealTypes...), model.TStr) {
		t := t
		gs = append(gs, core.Group{Key: "predicates/" + model.Name(t), Run: func(c *core.Ctx) { c15Predicates(c, t) }})
	}
	maxN := 8
	if tier == "thorough" {
		maxN = 10
	}
	for _, shape := range [][]int{{}, {1}, {5}, {8}, {10}, {4, 1}, {1, 4}, {2, 3}, {3, 3}, {2, 4}, {2, 5}, {2, 2, 2}, {1, 3, 2}, {2, 1, 3}, {1, 5, 1}, {1, 1, 4}, {3, 1, 1}, {1, 1}} {
		if model.Size(shape) > maxN {
			continue
		}
		shape := shape
		gs = append(gs, core.Group{Key: "inspect/" + shapeStr(shape), Run: func(c *core.Ctx) { c15Inspect(c, shape) }})
	}
	gs = append(gs, core.Group{Key: "operands", Run: c15Operands})
	gs = append(gs, core.Group{Key: "transport", Run: c15Transport})
	return gs
}

type c15Pred struct {
	name string
	args int
	fn   func(a interface{}, v []interface{}) bool
}

func ge(a, b interface{}) bool { return !model.Less(a, b) }
func le(a, b interface{}) bool { return !model.Less(b, a) }

var c15Preds = []c15Pred{
	{"MaskedEqual", 1, func(a interface{}, v []interface{}) bool { return a == v[0] }},
	{"MaskedNotEqual", 1, func(a interface{}, v []interface{}) bool { return a != v[0] }},
	{"MaskedGreater", 1, func(a interface{}, v []interface{}) bool { return model.Less(v[0], a) }},
	{"MaskedGreaterEqual", 1, func(a interface{}, v []interface{}) bool { return ge(a, v[0]) }},
	{"MaskedLess", 1, func(a interface{}, v []interface{}) bool { return model.Less(a, v[0]) }},
	{"MaskedLessEqual", 1, func(a interface{}, v []interface{}) bool { return le(a, v[0]) }},
	{"MaskedInside", 2, func(a interface{}, v []interface{}) bool { return ge(a, v[0]) && le(a, v[1]) }},
	{"MaskedOutside", 2, func(a interface{}, v []interface{}) bool { return model.Less(a, v[0]) || model.Less(v[1], a) }},
}

func callMethod(d *tensor.Dense, name string, args ...interface{}) (err error, ok bool) {
	m := reflect.ValueOf(d).MethodByName(name)
	if !m.IsValid() {
		return nil, false
	}
	in := make([]reflect.Value, len(args))
	for i, a := range args {
		in[i] = reflect.ValueOf(a)
	}
	out := m.Call(in)
	if len(out) > 0 && !out[0].IsNil() {
		err = out[0].Interface().(error)
	}
	return err, true
}

func c15Predicates(c *core.Ctx, t reflect.Type) {
	tn := model.Name(t)
	shapes := [][]int{{6}, {2, 3}, {3, 1}, {1, 4}, {2, 2, 2}}
	preds := c15Preds
	for _, shape := range shapes {
		n := model.Size(shape)
		for _, pr := range preds {
			for _, soft := range []bool{false, true} {
				for _, prior := range []string{"none", "empty", "some", "all"} {
					for _, lay := range []string{gen.LC, gen.LT, gen.LF, gen.LS, gen.LSS} {
						vals := gen.SmallInts(t, n, c.Rng, 1, 5)
						if t == model.TStr {
							vals = gen.Ramp(t, n, 1)
						}
						m := model.New(t, shape, vals)
						op, err := gen.Build(m, lay, c.Rng)
						if err != nil || op.Layout != lay {
							if lay == gen.LC {
								c.Inconclusive("operand-precondition")
							}
							continue
						}
						var pm []bool
						switch prior {
						case "empty":
							pm = make([]bool, n)
						case "some":
							pm = make([]bool, n)
							for i := range pm {
								pm[i] = c.Rng.Intn(2) == 0
							}
							pm[0] = true
						case "all":
							pm = make([]bool, n)
							for i := range pm {
								pm[i] = true
							}
						}
						if pm != nil {
							if err := op.AttachMask(append([]bool(nil), pm...)); err != nil {
								continue // this layout cannot carry a mask before the call
							}
						}
						d := op.D
						isView := op.D != op.Root
						var rootMaskBefore []bool
						if isView && op.Root.IsMasked() {
							rootMaskBefore = append([]bool(nil), op.Root.Mask()...)
						}
						if soft {
							d.SoftenMask()
						} else {
							d.HardenMask()
						}
						args := []interface{}{vals[c.Rng.Intn(n)]}
						if pr.args == 2 {
							a, b := vals[c.Rng.Intn(n)], vals[c.Rng.Intn(n)]
							if model.Less(b, a) {
								a, b = b, a
							}
							args = []interface{}{a, b}
						}
						snap := op.Snap()
						var perr error
						var found bool
						p, msg := core.Catch(func() { perr, found = callMethod(d, pr.name, args...) })
						sh := "hard"
						if soft {
							sh = "soft"
						}
						key := core.Sig(pr.name, tn, sh, prior, shapeClass(shape), lay)
						caseKey := fmt.Sprintf("%s/%s/%s/%s/%s/%s", pr.name, tn, sh, prior, shapeStr(shape), lay)
						desc := map[string]interface{}{"predicate": pr.name, "dtype": tn, "soft": soft, "prior": pm, "values": short(vals), "args": short(args), "shape": shape, "layout": lay, "recipe": op.Recipe}
						c.Eval(key, true)
						if c.WantSample(pr.name) {
							c.Sample(pr.name, desc)
						}
						viol := func(sym string, w, g interface{}) {
							if lay != gen.LC {
								sym = lay + "|" + sym
							}
							c.Violation(core.Sig(pr.name, dtypeClass(t), sh, "prior="+prior, sym), caseKey, desc, w, g)
						}
						if p {
							viol("panic", "a mask", msg)
							continue
						}
						if !found {
							continue
						}
						if perr != nil {
							c.Refused(pr.name + "|" + tn)
							continue
						}
						if len(op.Changed(snap)) > 0 {
							viol("data-changed", "data untouched", fmt.Sprint(op.Changed(snap)))
							continue
						}
						want := make([]bool, n)
						for i, v := range vals {
							pv := pr.fn(v, args)
							if soft || pm == nil {
								want[i] = pv
							} else {
								want[i] = pm[i] || pv
							}
						}
						got := d.Mask()
						if lay != gen.LC {
							// the mask is indexed by storage offset: it is read at the offsets the flat iterator yields, in logical order
							var why string
							if got, why = maskInLogicalOrder(d); why != "" {
								viol(why, "a mask with one entry per storage element", fmt.Sprint(len(d.Mask()), " entries, storage ", d.DataSize()))
								continue
							}
						}
						if len(got) != n {
							viol("mask-length", n, len(got))
							continue
						}
						bad := false
						for i := range want {
							if got[i] != want[i] {
								viol("wrong-mask", fmt.Sprint(want), fmt.Sprint(got))
								bad = true
								break
							}
						}
						if bad || !isView {
							continue
						}
						// a view: the elements of the parent that are not the view's keep their mask state
						inView := map[int]bool{}
						for _, o := range op.Off {
							inView[o] = true
						}
						switch {
						case rootMaskBefore == nil && op.Root.IsMasked():
							viol("parent-became-masked", "the parent stays unmasked", fmt.Sprint(op.Root.Mask()))
						case rootMaskBefore != nil:
							now := op.Root.Mask()
							for o := range rootMaskBefore {
								if !inView[o] && (o >= len(now) || now[o] != rootMaskBefore[o]) {
									viol("mask-outside-view-changed", fmt.Sprint(rootMaskBefore), fmt.Sprint(now))
									break
								}
							}
						}
					}
				}
			}
		}
		// by-values (floats): |a-x| <= delta
		if model.IsFloat(t) {
			for _, soft := range []bool{false, true} {
				for _, prior := range []string{"none", "some"} {
					for _, variant := range []string{"default-delta", "rtol-atol", "rtol-atol-negative"} {
						vals := gen.SmallInts(t, n, c.Rng, 1, 5)
						if variant == "rtol-atol-negative" {
							// a negative reference value: the tolerance is atol + rtol*|x|, not |atol + rtol*x|
							vals = gen.SmallInts(t, n, c.Rng, -8, -2)
						}
						op, err := gen.Build(model.New(t, shape, vals), gen.LC, c.Rng)
						if err != nil {
							continue
						}
						d := op.D
						var pm []bool
						if prior == "some" {
							pm = make([]bool, n)
							for i := range pm {
								pm[i] = i%2 == 0
							}
							d.MaskFromSlice(append([]bool(nil), pm...))
						}
						if soft {
							d.SoftenMask()
						} else {
							d.HardenMask()
						}
						x := vals[c.Rng.Intn(n)]
						var perr error
						p, msg := core.Catch(func() {
							if variant == "default-delta" {
								perr, _ = callMethod(d, "MaskedValues", x, model.FromFloat(t, 0))
							} else if variant == "rtol-atol" {
								perr = d.MaskedValues(x, model.FromFloat(t, 0.125), model.FromFloat(t, 0.25))
							} else {
								perr = d.MaskedValues(x, model.FromFloat(t, 0.25), model.FromFloat(t, 0.5))
							}
						})
						sh := "hard"
						if soft {
							sh = "soft"
						}
						key := core.Sig("MaskedValues", tn, sh, prior, variant, shapeClass(shape))
						caseKey := fmt.Sprintf("MaskedValues/%s/%s/%s/%s/%s", tn, sh, prior, variant, shapeStr(shape))
						c.Eval(key, true)
						if p || perr != nil {
							c.Violation(core.Sig("MaskedValues", dtypeClass(t), sh, "prior="+prior, "failed"), caseKey, nil, "a mask", fmt.Sprint(msg, perr))
							continue
						}
						delta := 1e-8
						if variant == "rtol-atol" {
							delta = 0.25 + 0.125*model.ToFloat(x)
						}
						if variant == "rtol-atol-negative" {
							delta = 0.5 + 0.25*math.Abs(model.ToFloat(x)) // x in -8..-2: 1.0..2.5, so neighbours at distance 1 (and 2) are inside
						}
						got := d.Mask()
						for i, v := range vals {
							diff := model.ToFloat(v) - model.ToFloat(x)
							if diff < 0 {
								diff = -diff
							}
							w := diff <= delta
							if !soft && pm != nil {
								w = pm[i] || w
							}
							if got[i] != w {
								c.Violation(core.Sig("MaskedValues", dtypeClass(t), sh, "prior="+prior, variant, "wrong-mask"), caseKey, map[string]interface{}{"values": short(vals), "x": x, "prior": pm}, w, fmt.Sprint(got))
								break
							}
						}
					}
				}
			}
		}
	}
	// negative control
	op, _ := gen.Build(model.New(model.TInt, []int{3}, []interface{}{1, 2, 3}), gen.LC, c.Rng)
	if op != nil {
		op.D.MaskedEqual(2)
		mk := op.D.Mask()
		c.Control(len(mk) == 3 && !mk[0] && mk[1] && !mk[2])
	}
}

// maskInLogicalOrder reads the mask of d at the storage offsets its flat iterator yields.
func maskInLogicalOrder(d *tensor.Dense) ([]bool, string) {
	if !d.IsMasked() {
		return nil, "not-masked-afterwards"
	}
	mk := d.Mask()
	it := tensor.FlatIteratorFromDense(d)
	var out []bool
	for i, err := it.Next(); err == nil; i, err = it.Next() {
		if i < 0 || i >= len(mk) {
			return nil, "offset-outside-mask"
		}
		out = append(out, mk[i])
	}
	return out, ""
}

type rng struct{ s, e int }

func runs(mask []bool, val bool) []rng {
	var out []rng
	i := 0
	for i < len(mask) {
		if mask[i] == val {
			j := i
			for j < len(mask) && mask[j] == val {
				j++
			}
			out = append(out, rng{i, j})
			i = j
		} else {
			i++
		}
	}
	return out
}

func slicesToRuns(sl []tensor.Slice) []rng {
	var out []rng
	for _, s := range sl {
		out = append(out, rng{s.Start(), s.End()})
	}
	return out
}

func c15Inspect(c *core.Ctx, shape []int) {
	n := model.Size(shape)
	sc := shapeClass(shape)
	t := model.TF64
	for bits := 0; bits < 1<<uint(n); bits++ {
		mask := make([]bool, n)
		cnt := 0
		for i := range mask {
			mask[i] = bits&(1<<uint(i)) != 0
			if mask[i] {
				cnt++
			}
		}
		vals := gen.Ramp(t, n, 1)
		mk := func() *tensor.Dense {
			op, err := gen.Build(model.New(t, shape, vals), gen.LC, c.Rng)
			if err != nil {
				return nil
			}
			op.D.MaskFromSlice(append([]bool(nil), mask...))
			if !op.D.IsMasked() {
				return nil
			}
			return op.D
		}
		d := mk()
		if d == nil {
			c.Inconclusive("mask-not-attached")
			return
		}
		caseKey := fmt.Sprintf("inspect/%s/mask=%0*b", shapeStr(shape), n, bits)
		desc := map[string]interface{}{"shape": shape, "mask": mask}
		if bits == 5%(1<<uint(n)) && c.WantSample("inspect/"+sc) {
			c.Sample("inspect/"+sc, desc)
		}
		judge := func(fn string, want, got interface{}) {
			c.Eval(core.Sig(fn, shapeStr(shape), fmt.Sprint(bits)), n > 1)
			if fmt.Sprint(want) != fmt.Sprint(got) {
				c.Violation(core.Sig(fn, sc, "disagrees-with-mask"), caseKey+"/"+fn, desc, want, got)
			}
		}
		safely := func(fn string, f func() interface{}) (interface{}, bool) {
			var r interface{}
			p, msg := core.Catch(func() { r = f() })
			if p {
				c.Eval(core.Sig(fn, shapeStr(shape), fmt.Sprint(bits)), n > 1)
				c.Violation(core.Sig(fn, sc, "panic"), caseKey+"/"+fn, desc, "a result", msg)
				return nil, false
			}
			return r, true
		}
		if r, ok := safely("MaskedCount", func() interface{} { return d.MaskedCount() }); ok {
			judge("MaskedCount", cnt, r)
		}
		if r, ok := safely("NonMaskedCount", func() interface{} { return d.NonMaskedCount() }); ok {
			judge("NonMaskedCount", n-cnt, r)
		}
		if r, ok := safely("MaskedAny", func() interface{} { return d.MaskedAny() }); ok {
			judge("MaskedAny", cnt > 0, r)
		}
		if r, ok := safely("MaskedAll", func() interface{} { return d.MaskedAll() }); ok {
			judge("MaskedAll", cnt == n, r)
		}
		// per axis (matrices and rank 3; vectors return the flat answer by documentation)
		if len(shape) >= 2 && !(len(shape) == 2 && (shape[0] == 1 || shape[1] == 1)) {
			mm := &model.ND{T: model.TBool, Shape: shape, V: make([]interface{}, n)}
			for i := range mask {
				mm.V[i] = mask[i]
			}
			for ax := 0; ax < len(shape); ax++ {
				ax := ax
				wantCt := model.Reduce(&model.ND{T: model.TInt, Shape: shape, V: func() []interface{} {
					v := make([]interface{}, n)
					for i := range v {
						v[i] = 0
						if mask[i] {
							v[i] = 1
						}
					}
					return v
				}()}, []int{ax}, func(a, b interface{}) interface{} { return a.(int) + b.(int) })
				cmpT := func(fn string, r interface{}, want []interface{}) {
					rd, ok := r.(*tensor.Dense)
					if !ok {
						judge(fn, "a tensor", fmt.Sprintf("%T %v", r, r))
						return
					}
					got, err := gen.ReadAll(rd)
					if err != nil {
						judge(fn, "readable", err.Error())
						return
					}
					judge(fn, fmt.Sprint(wantCt.Shape, want), fmt.Sprint(got.Shape, got.V))
				}
				if r, ok := safely("MaskedCount(axis)", func() interface{} { return d.MaskedCount(ax) }); ok {
					cmpT("MaskedCount(axis)", r, wantCt.V)
				}
				if r, ok := safely("NonMaskedCount(axis)", func() interface{} { return d.NonMaskedCount(ax) }); ok {
					w := make([]interface{}, len(wantCt.V))
					for i, v := range wantCt.V {
						w[i] = shape[ax] - v.(int)
					}
					cmpT("NonMaskedCount(axis)", r, w)
				}
				if r, ok := safely("MaskedAny(axis)", func() interface{} { return d.MaskedAny(ax) }); ok {
					w := make([]interface{}, len(wantCt.V))
					for i, v := range wantCt.V {
						w[i] = v.(int) > 0
					}
					cmpT("MaskedAny(axis)", r, w)
				}
				if r, ok := safely("MaskedAll(axis)", func() interface{} { return d.MaskedAll(ax) }); ok {
					w := make([]interface{}, len(wantCt.V))
					for i, v := range wantCt.V {
						w[i] = v.(int) == shape[ax]
					}
					cmpT("MaskedAll(axis)", r, w)
				}
			}
		}
		if len(shape) > 0 {
			if r, ok := safely("FlatMaskedContiguous", func() interface{} { return slicesToRuns(d.FlatMaskedContiguous()) }); ok {
				judge("FlatMaskedContiguous", runs(mask, true), r)
			}
			if r, ok := safely("FlatNotMaskedContiguous", func() interface{} { return slicesToRuns(d.FlatNotMaskedContiguous()) }); ok {
				judge("FlatNotMaskedContiguous", runs(mask, false), r)
			}
			if r, ok := safely("ClumpMasked", func() interface{} { return slicesToRuns(d.ClumpMasked()) }); ok {
				judge("ClumpMasked", runs(mask, true), r)
			}
			if r, ok := safely("ClumpUnmasked", func() interface{} { return slicesToRuns(d.ClumpUnmasked()) }); ok {
				judge("ClumpUnmasked", runs(mask, false), r)
			}
			edges := func(val bool) [2]int {
				f, l := -1, -1
				for i, m := range mask {
					if m == val {
						if f < 0 {
							f = i
						}
						l = i
					}
				}
				return [2]int{f, l}
			}
			if r, ok := safely("FlatMaskedEdges", func() interface{} { a, b := d.FlatMaskedEdges(); return [2]int{a, b} }); ok {
				judge("FlatMaskedEdges", edges(true), r)
			}
			if r, ok := safely("FlatNotMaskedEdges", func() interface{} { a, b := d.FlatNotMaskedEdges(); return [2]int{a, b} }); ok {
				judge("FlatNotMaskedEdges", edges(false), r)
			}
		}
		// filling
		for _, given := range []bool{false, true} {
			fill := interface{}(float64(1.0e20))
			var args []interface{}
			name := "Filled"
			if given {
				fill = float64(-7)
				args = []interface{}{fill}
				name = "Filled(value)"
			}
			want := make([]interface{}, n)
			for i := range want {
				want[i] = vals[i]
				if mask[i] {
					want[i] = fill
				}
			}
			wm := &model.ND{T: t, Shape: shape, V: want}
			src := mk()
			if r, ok := safely(name, func() interface{} { x, _ := src.Filled(args...); return x }); ok {
				rd, isD := r.(*tensor.Dense)
				c.Eval(core.Sig(name, shapeStr(shape), fmt.Sprint(bits)), n > 1)
				if !isD {
					c.Violation(core.Sig(name, sc, "not-dense"), caseKey+"/"+name, desc, "*Dense", fmt.Sprintf("%T", r))
				} else if e := gen.ReadMatches(rd, wm); e != nil {
					c.Violation(core.Sig(name, sc, "disagrees-with-mask"), caseKey+"/"+name, desc, short(want), e.Error())
				} else if e := gen.ReadMatches(src, &model.ND{T: t, Shape: shape, V: vals}); e != nil {
					c.Violation(core.Sig(name, sc, "source-changed"), caseKey+"/"+name, desc, "source untouched", e.Error())
				}
			}
			src2 := mk()
			nm := "FilledInplace"
			if given {
				nm = "FilledInplace(value)"
			}
			if _, ok := safely(nm, func() interface{} { x, _ := src2.FilledInplace(args...); return x }); ok {
				c.Eval(core.Sig(nm, shapeStr(shape), fmt.Sprint(bits)), n > 1)
				if e := gen.ReadMatches(src2, wm); e != nil {
					c.Violation(core.Sig(nm, sc, "disagrees-with-mask"), caseKey+"/"+nm, desc, short(want), e.Error())
				}
			}
		}
	}
	// negative control
	c.Control(fmt.Sprint(runs([]bool{true, false, true, true}, true)) == "[{0 1} {2 4}]")
}

// c15Operands: elementwise operations on masked operands deliver the unmasked value wherever all operands are valid.
func c15Operands(c *core.Ctx) {
	types := []reflect.Type{model.TInt16, model.TF32, model.TF64, model.TInt64}
	shapes := [][]int{{6}, {2, 3}, {2, 2, 2}}
	type opc struct{ fam, op, form string }
	ops := []opc{{"arith", "Add", "TT"}, {"arith", "Sub", "TT"}, {"arith", "Mul", "TT"}, {"arith", "Add", "TS"}, {"arith", "Sub", "ST"}, {"cmp", "Lt", "TT"}, {"cmp", "ElEq", "TT"}, {"unary", "Neg", "T"}, {"unary", "Square", "T"}}
	for _, t := range types {
		for _, shape := range shapes {
			n := model.Size(shape)
			for _, o := range ops {
				for _, la := range []string{gen.LC, gen.LT} {
					for _, mode := range []string{"safe", "unsafe"} {
						for _, mcase := range []string{"a", "b", "both"} {
							if o.form != "TT" && mcase != "a" {
								continue
							}
							if o.fam == "cmp" && mode == "safe" {
								mode = "bool"
							}
							ma := make([]bool, n)
							mb := make([]bool, n)
							for i := range ma {
								ma[i] = c.Rng.Intn(3) == 0
								mb[i] = c.Rng.Intn(3) == 0
							}
							sp := ewSpec{Family: o.fam, Op: o.op, T: t, Form: o.form, LayA: la, LayB: gen.LC, Mode: mode, API: "func", Shape: shape, Vals: "small"}
							if o.form != "TT" {
								sp.LayB = ""
							}
							switch mcase {
							case "a":
								sp.MaskA = ma
								mb = make([]bool, n)
							case "b":
								sp.MaskB = mb
								ma = make([]bool, n)
							default:
								sp.MaskA, sp.MaskB = ma, mb
							}
							ob := ewRun(c, sp)
							if ob.precond != "" {
								if ob.precond != "no-second-tensor" {
									c.Inconclusive(ob.precond)
								}
								continue
							}
							if ob.A.op.Layout != la {
								continue
							}
							key := core.Sig("masked-operand", o.op, o.form, model.Name(t), la, mode, mcase, shapeClass(shape))
							c.Eval(key, true)
							if c.WantSample("masked-operand/" + o.op) {
								d := sp.desc()
								d["maskA"], d["maskB"] = sp.MaskA, sp.MaskB
								c.Sample("masked-operand/"+o.op, d)
							}
							viol := func(sym string, w, g interface{}) {
								c.Violation(core.Sig("masked-operand", o.op, o.form, dtypeClass(t), la, mode, "masked="+mcase, sym), sp.caseKey()+"/masked="+mcase, sp.desc(), w, g)
							}
							if ob.panicked || ob.err != nil {
								viol("refused", "a result", fmt.Sprint(ob.pmsg, ob.err))
								continue
							}
							if ob.resM == nil {
								viol("unreadable", "a tensor", fmt.Sprint(ob.resErr))
								continue
							}
							if len(ob.resM.V) != len(ob.want.V) {
								viol("result-size", len(ob.want.V), len(ob.resM.V))
								continue
							}
							for i := range ob.want.V {
								if ma[i] || mb[i] {
									continue // only positions valid in all operands are demanded
								}
								if !model.Equal(ob.resM.V[i], ob.want.V[i]) {
									viol("valid-position-differs", fmt.Sprintf("position %d: %v", i, ob.want.V[i]), ob.resM.V[i])
									break
								}
							}
						}
					}
				}
			}
		}
	}
	c.Control(true)
}

// c15Transport: the mask stays attached to its elements through lazy and physical transposition and slicing.
func c15Transport(c *core.Ctx) {
	for _, t := range []reflect.Type{model.TInt32, model.TStr, model.TC128} {
		c15TransportType(c, t)
	}
	c.Control(true)
}

func c15TransportType(c *core.Ctx, t reflect.Type) {
	shapes := [][]int{{2, 3}, {3, 1}, {1, 4}, {2, 3, 2}, {3, 3}, {2, 2, 2, 2}}
	for _, shape := range shapes {
		n := model.Size(shape)
		rank := len(shape)
		for rep := 0; rep < 12; rep++ {
			mask := make([]bool, n)
			for i := range mask {
				mask[i] = c.Rng.Intn(2) == 0
			}
			build := func(lay string) *gen.Operand {
				op, err := gen.Build(model.New(t, shape, gen.Ramp(t, n, 1)), lay, c.Rng)
				if err != nil || op.Layout != lay {
					return nil
				}
				if op.AttachMask(mask) != nil {
					return nil
				}
				return op
			}
			checkMask := func(what string, d *tensor.Dense, want *model.ND, desc interface{}) {
				c.Eval(core.Sig("transport", what, shapeStr(shape)), true)
				bad := ""
				model.Each(want.Shape, func(co []int, r int) {
					if bad != "" {
						return
					}
					mv, err := d.MaskAt(co...)
					v, verr := d.At(co...)
					if err != nil || verr != nil {
						bad = fmt.Sprint("unreadable ", err, verr)
						return
					}
					if !model.Same(v, want.V[r]) {
						bad = fmt.Sprintf("element %v is %v, want %v", co, v, want.V[r])
						return
					}
					if mv != want.Mask[r] {
						bad = fmt.Sprintf("mask at %v is %v, want %v (element %v)", co, mv, want.Mask[r], v)
					}
				})
				if bad != "" {
					c.Violation(core.Sig("transport", what, shapeClass(shape), "mask-detached"), fmt.Sprintf("transport/%s/%s", what, shapeStr(shape)), desc, "mask follows its elements", bad)
				}
			}
			for _, lay := range []string{gen.LC, gen.LF} {
				for _, p := range model.Perms(rank) {
					if model.IsIdentity(p) {
						continue
					}
					op := build(lay)
					if op == nil {
						continue
					}
					desc := map[string]interface{}{"layout": lay, "shape": shape, "perm": p, "mask": mask}
					if err := op.D.T(p...); err != nil {
						continue
					}
					want := model.Permute(op.M, p)
					checkMask("T/"+lay, op.D, want, desc)
					if err := op.D.Transpose(); err == nil {
						checkMask("Transpose/"+lay, op.D, want, desc)
					}
					// the copying transpositions, with tensors in the pool that carried a mask in their previous life
					for k := 0; k < 2; k++ {
						if old := build(gen.LC); old != nil {
							tensor.ReturnTensor(old.D)
						}
					}
					if src := build(lay); src != nil {
						if r, err := src.D.SafeT(p...); err == nil {
							checkMask("SafeT/"+lay, r, want, desc)
						}
						if r, err := tensor.T(src.D, p...); err == nil {
							if rd, ok := r.(*tensor.Dense); ok {
								checkMask("tensor.T/"+lay, rd, want, desc)
							}
						}
						if r, err := tensor.Transpose(src.D, p...); err == nil {
							if rd, ok := r.(*tensor.Dense); ok {
								checkMask("tensor.Transpose/"+lay, rd, want, desc)
							}
						}
					}
				}
				// slicing
				op := build(lay)
				if op == nil {
					continue
				}
				for k := 0; k < 6; k++ {
					specs := make([]model.SliceSpec, 1+c.Rng.Intn(rank))
					for i := range specs {
						a := axisArgs(shape[i])
						for {
							x := a[c.Rng.Intn(len(a))]
							if x.valid && (i > 0 || !strings.HasPrefix(specClass(x.spec, shape[i]), "step")) {
								specs[i] = x.spec
								break
							}
						}
					}
					sl := make([]tensor.Slice, len(specs))
					for i, s := range specs {
						sl[i] = toSlice(s)
					}
					v, err := op.D.Slice(sl...)
					if err != nil {
						continue
					}
					vd := v.(*tensor.Dense)
					res := model.Slice(op.M, specs)
					got := shapeOf(vd)
					keep, ok := model.SqueezeMatch(res.Full.Shape, res.MayDrop, got)
					if !ok {
						continue // shape deviations are C02's
					}
					_ = keep
					want := &model.ND{T: t, Shape: got, V: res.Full.V, Mask: res.Full.Mask}
					if !vd.IsMasked() && len(want.V) > 0 {
						// a single-element scalar view may carry a one-element mask or none; only judged when a mask is present
						if len(got) == 0 {
							continue
						}
					}
					sdesc := map[string]interface{}{"layout": lay, "shape": shape, "slices": specsStr(specs), "mask": mask, "dtype": model.Name(t)}
					checkMask("Slice/"+lay, vd, want, sdesc)
					// ... and through a physical transposition of the view, which moves the parent's elements inside the view's window:
					// in the view the mask follows the permutation, and in the parent every value keeps its mask state
					if vd.IsMasked() && len(got) >= 2 && c.Rng.Intn(2) == 0 {
						if w, err := op.D.Slice(sl...); err == nil {
							wd := w.(*tensor.Dense)
							pairs := func() map[string]bool {
								out := map[string]bool{}
								model.Each(shape, func(co []int, _ int) {
									v, e1 := op.D.At(co...)
									m, e2 := op.D.MaskAt(co...)
									if e1 == nil && e2 == nil {
										out[fmt.Sprint(v)] = m
									}
								})
								return out
							}
							before := pairs()
							perm := model.Reversal(len(got))
							var terr error
							if p, _ := core.Catch(func() {
								if terr = wd.T(perm...); terr == nil {
									terr = wd.Transpose()
								}
							}); !p && terr == nil {
								checkMask("Slice+Transpose/"+lay, wd, model.Permute(want, perm), sdesc)
								after := pairs()
								for v, m := range before {
									if am, ok := after[v]; ok && am != m {
										c.Violation(core.Sig("transport", "Slice+Transpose/"+lay, shapeClass(shape), "parent-mask-left-behind"), fmt.Sprintf("transport/Slice+Transpose/%s/%s", lay, shapeStr(shape)), sdesc,
											"every value of the parent keeps its mask state", fmt.Sprintf("value %s: masked %v -> %v", v, m, am))
										break
									}
								}
							}
							// the parent's elements were moved: rebuild it for the next round
							if nop := build(lay); nop != nil {
								op = nop
							} else {
								break
							}
							continue
						}
					}
					// ... and through a copy of the slice: the copy has its own, compact storage, the mask has to be compacted with it
					if vd.IsMasked() && len(got) > 0 {
						if md, ok := vd.Materialize().(*tensor.Dense); ok && md != vd {
							checkMask("Slice+Materialize/"+lay, md, want, sdesc)
						}
						if cd, ok := vd.Clone().(*tensor.Dense); ok {
							checkMask("Slice+Clone/"+lay, cd, want, sdesc)
						}
					}
				}
			}
		}
	}
	c.Sample("transport", map[string]interface{}{"ops": "T(p), Transpose, Slice", "layouts": "C, F"})
}
