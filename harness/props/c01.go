package props

import (
	"fmt"
	"reflect"

	"gorgonia.org/tensor"
	"verifharness/core"
	"verifharness/gen"
	"verifharness/model"
)

// C01 — coordinate addressing is exact and bounds-checked.
//
// Events that refute it: an At that returns anything but the backing element
// the harness' own offset formula names; an At/SetAt that succeeds for a
// coordinate outside the shape or of the wrong arity, or panics; a SetAt that
// changes another or an additional backing element, or any element when it
// was rejected.

func init() {
	register(&core.Prop{
		ID: "C01",
		Rule: "class matrix: element type x construction/layout {C, F (declared col-major over raw backing), Fconv (converting constructor), Z (library-allocated), T, S, SS, ST, TS} x every shape of rank 0-4 over the tier's dims; " +
			"inside a class EVERY coordinate of the box [-2,dim+1]^rank and wrong arities {0, rank-1, rank+1} is driven through At and SetAt (exhaustive inside the box). " +
			"A case is one (tensor, coordinate) pair; distinct_nontrivial counts distinct (dtype, layout, shape, coordinate-kind) keys on tensors with more than one element.",
		Assume: []string{"root backing slices are allocated by the harness and read/diffed directly, not through the library",
			"the PRNG only chooses permutations, margins and steps inside a layout class"},
		Groups: c01Groups,
		Flavours: func(tier string) []string {
			if tier == "thorough" {
				return []string{"plain", "noasm"}
			}
			return []string{"plain"}
		},
	})
}

var c01Layouts = []string{gen.LC, gen.LF, gen.LFconv, "Z", gen.LT, gen.LS, gen.LSS, gen.LST, gen.LTS, gen.LTT, gen.LTF}

func c01Types(tier string) []reflect.Type {
	if tier == "thorough" {
		return model.AllTypes
	}
	return []reflect.Type{model.TBool, model.TInt8, model.TInt16, model.TF32, model.TInt64, model.TC128, model.TStr}
}

func c01Shapes(tier string) [][]int {
	var out [][]int
	dims := []int{1, 2, 3}
	for r := 0; r <= 3; r++ {
		out = append(out, shapesOver(r, dims)...)
	}
	if tier == "thorough" {
		out = append(out, shapesOver(4, dims)...)
		// dims 4,5 and (1,..,n,..,1) shapes
		out = append(out, []int{4}, []int{5}, []int{4, 5}, []int{5, 4}, []int{5, 1}, []int{1, 5}, []int{4, 1, 5}, []int{1, 1, 5}, []int{5, 1, 1}, []int{1, 4, 1},
			[]int{2, 5, 3}, []int{1, 1, 4, 1}, []int{1, 1, 1, 5}, []int{5, 1, 1, 1}, []int{2, 1, 4, 3})
	} else {
		out = append(out, shapesOver(4, []int{1, 2})...)
		out = append(out, []int{5}, []int{4, 5}, []int{1, 5}, []int{5, 1}, []int{1, 4, 1}, []int{3, 1, 2, 3})
	}
	return out
}

func c01Groups(tier string) []core.Group {
	var gs []core.Group
	for _, t := range c01Types(tier) {
		for _, lay := range c01Layouts {
			t, lay := t, lay
			gs = append(gs, core.Group{Key: fmt.Sprintf("%s/%s", model.Name(t), lay), Run: func(c *core.Ctx) {
				for _, shape := range c01Shapes(tier) {
					c01Tensor(c, t, lay, shape)
				}
			}})
		}
	}
	return gs
}

func c01Build(c *core.Ctx, t reflect.Type, lay string, shape []int) (*gen.Operand, error) {
	n := model.Size(shape)
	m := model.New(t, shape, gen.Ramp(t, n, 1))
	if lay == "Z" {
		if len(shape) == 0 {
			return gen.Build(m, gen.LC, c.Rng)
		}
		var d *tensor.Dense
		p, msg := core.Catch(func() { d = tensor.New(tensor.Of(gen.Dtype(t)), tensor.WithShape(shape...)) })
		if p {
			return nil, fmt.Errorf("panic: %s", msg)
		}
		op := &gen.Operand{D: d, Root: d, M: m, Layout: "Z", Asked: "Z", Recipe: map[string]interface{}{"layout": "Z", "shape": shape, "dtype": model.Name(t)}}
		op.Backing = d.Data()
		if reflect.TypeOf(op.Backing).Kind() != reflect.Slice {
			return nil, fmt.Errorf("Data() of a %v tensor is not a slice", shape)
		}
		bv := reflect.ValueOf(op.Backing)
		if bv.Len() != n {
			return nil, fmt.Errorf("allocated %d elements for shape %v", bv.Len(), shape)
		}
		op.Off = make([]int, n)
		for i := 0; i < n; i++ {
			if !model.Same(bv.Index(i).Interface(), model.Zero(t)) {
				return nil, fmt.Errorf("fresh tensor not zeroed at %d", i)
			}
			bv.Index(i).Set(reflect.ValueOf(m.V[i]))
			op.Off[i] = i
		}
		return op, nil
	}
	return gen.Build(m, lay, c.Rng)
}

func coordKind(shape, coord []int) string {
	if len(coord) != len(shape) {
		return "arity"
	}
	neg, high := false, false
	for i := range coord {
		if coord[i] < 0 {
			neg = true
		}
		if coord[i] >= shape[i] {
			high = true
		}
	}
	switch {
	case neg && high:
		return "neg+high"
	case neg:
		return "neg"
	case high:
		return "high"
	}
	return "in"
}

func setBacking(op *gen.Operand, i int, v interface{}) {
	reflect.ValueOf(op.Backing).Index(i).Set(reflect.ValueOf(v))
}

func c01Tensor(c *core.Ctx, t reflect.Type, lay string, shape []int) {
	op, err := c01Build(c, t, lay, shape)
	tn := model.Name(t)
	if err != nil {
		// building these operands uses exactly the operations this property is about
		// (constructors) or C02/C03 (views): constructor failures are ours to report.
		if lay == gen.LC || lay == gen.LF || lay == gen.LFconv || lay == "Z" {
			c.Violation(core.Sig("construct", lay, shapeClass(shape), "failed"), fmt.Sprintf("%s/%s/%s", tn, lay, shapeStr(shape)), map[string]interface{}{"dtype": tn, "layout": lay, "shape": shape}, "a tensor", err.Error())
		} else {
			c.Inconclusive("operand-precondition:" + lay)
		}
		return
	}
	lay = op.Layout
	if op.Asked != op.Layout {
		// the shape does not admit the requested layout; the C group covers it
		return
	}
	d := op.D
	rank := len(shape)
	sc := shapeClass(shape)
	nontrivial := len(op.M.V) > 1
	desc := func(coord []int) map[string]interface{} {
		return map[string]interface{}{"recipe": op.Recipe, "coord": append([]int(nil), coord...)}
	}
	caseKey := func(coord []int) string { return fmt.Sprintf("%s/%s/%s@%v", tn, lay, shapeStr(shape), coord) }
	if c.WantSample(lay) {
		c.Sample(lay, map[string]interface{}{"recipe": op.Recipe, "box": "[-2,dim+1] per axis", "ops": "At, write-probe+At, SetAt+raw diff"})
	}

	snap := op.Snap()
	sets := 0
	fullDiff := func(coord []int, allowed int) bool {
		ch := op.Changed(snap)
		bad := false
		for _, i := range ch {
			if i != allowed {
				bad = true
			}
		}
		if bad {
			c.Violation(core.Sig("SetAt", lay, sc, coordKind(shape, coord), "other-element-changed"), caseKey(coord), desc(coord),
				"only the addressed element changes", fmt.Sprintf("changed backing positions %v (addressed %d)", ch, allowed))
			// restore so later cases are not polluted
			bv := reflect.ValueOf(op.Backing)
			sv := reflect.ValueOf(snap)
			for _, i := range ch {
				bv.Index(i).Set(sv.Index(i))
			}
		}
		return bad
	}

	check := func(coord []int) {
		kind := coordKind(shape, coord)
		key := core.Sig(tn, lay, shapeStr(shape), kind)
		in := kind == "in"
		// ---- At ----
		var got interface{}
		var aerr error
		p, msg := core.Catch(func() { got, aerr = d.At(coord...) })
		c.Eval(key, nontrivial)
		if p {
			c.Violation(core.Sig("At", lay, sc, kind, "panic"), caseKey(coord), desc(coord), "value or error", "panic: "+msg)
		} else if in {
			r := model.Rank(shape, coord)
			off := op.Off[r]
			want := op.BackingAt(off)
			if aerr != nil {
				c.Violation(core.Sig("At", lay, sc, kind, "error-on-valid"), caseKey(coord), desc(coord), short(want), aerr.Error())
			} else if !model.Same(got, want) {
				c.Violation(core.Sig("At", lay, sc, kind, "wrong-element"), caseKey(coord), desc(coord), short(want), short(got))
			} else if !model.Same(got, op.M.V[r]) {
				// the raw element is the one the data order names, but it is not the element the constructor was given for this coordinate
				c.Violation(core.Sig("At", lay, sc, kind, "not-the-given-sequence"), caseKey(coord), desc(coord), short(op.M.V[r]), short(got))
			} else {
				// write-probe: change exactly that raw element; At must follow
				probe := other(want)
				setBacking(op, off, probe)
				var got2 interface{}
				p2, msg2 := core.Catch(func() { got2, aerr = d.At(coord...) })
				setBacking(op, off, want)
				c.Eval(key, nontrivial)
				if p2 || aerr != nil || !model.Same(got2, probe) {
					c.Violation(core.Sig("At", lay, sc, kind, "wrong-element"), caseKey(coord), desc(coord), short(probe), fmt.Sprint(short(got2), " ", msg2, " ", aerr))
				}
			}
		} else if aerr == nil {
			c.Violation(core.Sig("At", lay, sc, kind, "no-error"), caseKey(coord), desc(coord), "an error", short(got))
		}
		// ---- SetAt ----
		var sentinel interface{}
		var off = -1
		if in {
			off = op.Off[model.Rank(shape, coord)]
			sentinel = other(op.BackingAt(off))
		} else {
			sentinel = other(model.Zero(t))
		}
		var serr error
		p, msg = core.Catch(func() { serr = d.SetAt(sentinel, coord...) })
		c.Eval(key, nontrivial)
		sets++
		switch {
		case p:
			c.Violation(core.Sig("SetAt", lay, sc, kind, "panic"), caseKey(coord), desc(coord), "write or error", "panic: "+msg)
			fullDiff(coord, -1)
		case in && serr != nil:
			c.Violation(core.Sig("SetAt", lay, sc, kind, "error-on-valid"), caseKey(coord), desc(coord), "write", serr.Error())
			fullDiff(coord, -1)
		case in:
			if !model.Same(op.BackingAt(off), sentinel) {
				c.Violation(core.Sig("SetAt", lay, sc, kind, "addressed-element-not-written"), caseKey(coord), desc(coord), short(sentinel), short(op.BackingAt(off)))
				fullDiff(coord, -1)
			} else {
				if sets%64 == 0 || len(op.M.V) <= 64 {
					fullDiff(coord, off)
				}
				setBacking(op, off, reflect.ValueOf(snap).Index(off).Interface())
			}
		case serr == nil:
			c.Violation(core.Sig("SetAt", lay, sc, kind, "no-error"), caseKey(coord), desc(coord), "an error and no write", "nil error")
			fullDiff(coord, -1)
		default:
			if sets%64 == 0 || len(op.M.V) <= 64 {
				if fullDiff(coord, -1) {
					_ = 0
				}
			}
		}
	}

	// the box [-2, dim+1]^rank
	box := make([]int, rank)
	for i, dd := range shape {
		box[i] = dd + 4
	}
	coord := make([]int, rank)
	model.Each(box, func(bc []int, _ int) {
		for i := range bc {
			coord[i] = bc[i] - 2
		}
		check(coord)
	})
	// wrong arities
	seenAr := map[int]bool{}
	for _, a := range []int{0, rank - 1, rank + 1, rank + 2} {
		if a < 0 || a == rank || seenAr[a] {
			continue
		}
		seenAr[a] = true
		z := make([]int, a)
		check(z)
		if a > 0 {
			o := make([]int, a)
			for i := range o {
				if i < rank && shape[i] > 1 {
					o[i] = 1
				}
			}
			check(o)
		}
	}
	// final frame check: nothing but restored elements
	if ch := op.Changed(snap); len(ch) > 0 {
		c.Violation(core.Sig("SetAt", lay, sc, "sweep", "other-element-changed"), caseKey(nil), desc(nil), "backing restored after sweep", fmt.Sprintf("changed %v", ch))
	}
	// negative control: a deliberately wrong expectation must be noticed by the same comparison
	if len(op.M.V) > 1 {
		z := make([]int, rank)
		got, err := d.At(z...)
		wrong := other(op.BackingAt(op.Off[0]))
		c.Control(err == nil && !model.Same(got, wrong))
	}
}
