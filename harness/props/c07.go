package props

import (
	"fmt"
	"reflect"

	"verifharness/core"
	"verifharness/gen"
	"verifharness/model"
)

// C07 — operation options: safe is pure, unsafe/reuse/incr write only their destination.

func init() {
	register(&core.Prop{
		ID: "C07",
		Rule: "every arithmetic (8), comparison (6) and unary (15 + Apply) operation x option modes {safe, unsafe, reuse, incr, reuse aliasing operand a, reuse aliasing operand b} (comparisons: {bool, same-type, unsafe, reuse bool, reuse same-type, reuse aliasing a}) x forms {tensor-tensor, tensor-scalar, scalar-tensor} x operand layouts {C,T,S,SS,MS} per operand x destination layouts {C, S (sliced view of a larger parent)} x element types (all numeric types on four layout pairs, five widths elsewhere). " +
			"Oracle: identity of the returned tensor; delivered values equal the safe-mode (model) values (incr: old destination + result); raw diff of every harness-owned backing: no byte outside any tensor's element set changes and every tensor other than the designated destination is bit-identical with unchanged metadata. A contiguous destination of the right type and size must be accepted; a refused view destination is tallied, provided nothing was written. distinct_nontrivial counts distinct class keys with a non-safe mode or a non-contiguous operand.",
		Assume: []string{"safe-mode values are the model's (decided by C06/C11/C12)"},
		Groups: c07Groups,
	})
}

var c07Widths = []reflect.Type{model.TInt8, model.TUint16, model.TF32, model.TF64, model.TC128}

func c07Shapes(tier string) [][]int {
	if tier == "thorough" {
		return [][]int{{4}, {3, 1}, {1, 3}, {2, 3}, {2, 3, 2}, {2, 2, 3, 2}, {1, 1}, {1}, {3, 1, 2}, {}}
	}
	return [][]int{{4}, {2, 3}, {2, 3, 2}, {1, 1}, {1}, {}}
}

var c07ArithModes = []string{"safe", "unsafe", "reuse", "incr", "reuseA", "reuseB", "incrB", "reuse-othertype", "incr-othertype"}
var c07CmpModes = []string{"bool", "same", "unsafe", "reuse-bool", "reuse-same", "reuseA-same", "reuseB-same", "reuse-unfit"}
var c07UnaryModes = []string{"safe", "unsafe", "reuse", "incr", "reuseA", "reuse-othertype", "incr-othertype"}

func c07Groups(tier string) []core.Group {
	var gs []core.Group
	for _, op := range arithOps {
		for _, mode := range c07ArithModes {
			op, mode := op, mode
			gs = append(gs, core.Group{Key: fmt.Sprintf("arith/%s/%s", op, mode), Run: func(c *core.Ctx) { c07Run(c, "arith", op, mode) }})
		}
	}
	for _, op := range cmpOps {
		for _, mode := range c07CmpModes {
			op, mode := op, mode
			gs = append(gs, core.Group{Key: fmt.Sprintf("cmp/%s/%s", op, mode), Run: func(c *core.Ctx) { c07Run(c, "cmp", op, mode) }})
		}
	}
	for _, op := range unaryOps {
		for _, mode := range c07UnaryModes {
			op, mode := op, mode
			gs = append(gs, core.Group{Key: fmt.Sprintf("unary/%s/%s", op, mode), Run: func(c *core.Ctx) { c07Run(c, "unary", op, mode) }})
		}
	}
	return gs
}

func c07Eq(sp ewSpec) func(a, b interface{}) bool {
	if sp.Op == "Pow" {
		return func(a, b interface{}) bool { return model.Close(a, b, 2) }
	}
	if sp.Family == "unary" {
		switch sp.Op {
		case "Neg", "Square", "Cube", "Abs", "Sign", "Clamp", "Apply", "ApplyErr", "Inv":
			return model.Equal
		}
		return func(a, b interface{}) bool { return model.Close(a, b, 2) }
	}
	return model.Equal
}

func c07Run(c *core.Ctx, family, op, mode string) {
	lays := gen.ElemLayouts
	fullPairs := map[[2]string]bool{{gen.LC, gen.LC}: true, {gen.LT, gen.LC}: true, {gen.LS, gen.LSS}: true, {gen.LC, gen.LT}: true}
	forms := []string{"TT", "TS", "ST"}
	if family == "unary" {
		forms = []string{"T"}
	}
	dests := []string{""}
	if mode == "reuse" || mode == "incr" || mode == "reuse-bool" || mode == "reuse-same" {
		dests = []string{gen.LC, gen.LS, gen.LF}
	}
	if mode == "reuse-unfit" || mode == "reuse-othertype" || mode == "incr-othertype" {
		dests = []string{gen.LC}
	}
	for _, form := range forms {
		if (mode == "reuseB" || mode == "reuseB-same" || mode == "incrB") && form != "TT" {
			continue
		}
		var pairs [][2]string
		if form == "TT" {
			for _, a := range lays {
				for _, b := range lays {
					pairs = append(pairs, [2]string{a, b})
				}
			}
		} else {
			for _, a := range lays {
				pairs = append(pairs, [2]string{a, ""})
			}
		}
		for _, p := range pairs {
			types := c07Widths
			if family == "arith" && (fullPairs[p] || p[1] == "") && (p[0] == gen.LC || p[0] == gen.LT || p[0] == gen.LS) {
				types = model.NumTypes
			}
			for _, t := range types {
				for _, dest := range dests {
					for _, shape := range c07Shapes(c.Tier) {
						valClasses := []string{"small"}
						if family == "cmp" {
							// comparisons: operands with many equal pairs, and all-equal operands (the boundary of <= and >=,
							// where a mirrored scalar-left comparison must stay inclusive)
							valClasses = []string{"eqmix", "alleq"}
						}
						for _, vc := range valClasses {
						sp := ewSpec{Family: family, Op: op, T: t, Form: form, LayA: p[0], LayB: p[1], Mode: mode, Dest: dest, API: "func", Shape: shape, Vals: vc}
						if (mode == "incr" || mode == "incrB" || mode == "incr-othertype") && (op == "MinBetween" || op == "MaxBetween") {
							continue // the increment option is not among the documented options of min/max
						}
						if !ewDefinedFor(sp) && t != model.TF64 {
							// undefined (op,dtype) pairs are C06/C11/C12's refusal clause; one representative is enough here
							continue
						}
						o := ewRun(c, sp)
						if ewJudge(c, o, ewPolicy{eq: c07Eq(sp), mustSupport: false}) {
							c.Eval(sp.key(), model.Size(shape) > 1 && (mode != "safe" && mode != "bool" || p[0] != gen.LC))
							if c.WantSample(family + "/" + mode) {
								d := sp.desc()
								d["result_is"] = o.resIs
								c.Sample(family+"/"+mode, d)
							}
						}
						}
					}
				}
			}
		}
	}
	// negative control: a destination that silently keeps its old content must be noticed
	sp := ewSpec{Family: "arith", Op: "Add", T: model.TF64, Form: "TT", LayA: gen.LC, LayB: gen.LC, Mode: "reuse", Dest: gen.LC, API: "func", Shape: []int{2, 3}, Vals: "small"}
	o := ewRun(c, sp)
	if o.precond == "" && o.resM != nil {
		bad := &model.ND{T: o.want.T, Shape: o.want.Shape, V: append([]interface{}(nil), o.destInit.V...)}
		sym, _ := ewCompare(o, bad, model.Equal)
		c.Control(sym != "")
	}
}
