// Package props holds one workload + oracle per property (C01..C20).
package props

import (
	"fmt"
	"reflect"
	"sort"
	"strings"

	"verifharness/core"
	"verifharness/model"
)

var registry = map[string]*core.Prop{}

func register(p *core.Prop) { registry[p.ID] = p }

func Get(id string) *core.Prop { return registry[id] }

func All() []*core.Prop {
	var out []*core.Prop
	for _, p := range registry {
		out = append(out, p)
	}
	sort.Slice(out, func(i, j int) bool { return out[i].ID < out[j].ID })
	return out
}

// operandLayouts is the set of operand layouts a shared runner ranges over: the row-major family normally,
// the column-major family (mixed with contiguous row-major) when it runs on behalf of C16.
func operandLayouts(c *core.Ctx) []string {
	if c.Prop == "C16" {
		return []string{"C", "F", "Fconv", "FT", "FS", "FSS"}
	}
	if c.Prop == "C08" {
		// reductions also meet a lazily transposed stepped view (whose storage window has gaps that a whole-tensor fold must skip),
		// a stepped view of a transposed tensor, the slice of a stepped slice, the clone of a stepped slice (an owner with gaps),
		// two stacked rotations and the whole-slice view of a transposed tensor (stale strides on unit axes)
		return []string{"C", "T", "S", "SS", "MS", "F", "TS", "ST", "SSS", "CSS", "TT", "TF"}
	}
	return []string{"C", "T", "S", "SS", "MS", "F", "ST", "TS", "SSS", "CSS", "TT", "TF"}
}

func shapeStr(s []int) string {
	parts := make([]string, len(s))
	for i, d := range s {
		parts[i] = fmt.Sprint(d)
	}
	return "(" + strings.Join(parts, ",") + ")"
}

// shapeClass names the shape classes the library special-cases.
func shapeClass(s []int) string {
	n := model.Size(s)
	switch {
	case len(s) == 0:
		return "scalar"
	case n == 1:
		return "scalarlike"
	case len(s) == 1:
		return "vector"
	case len(s) == 2 && s[1] == 1:
		return "colvec"
	case len(s) == 2 && s[0] == 1:
		return "rowvec"
	}
	nonunit := 0
	for _, d := range s {
		if d > 1 {
			nonunit++
		}
	}
	if nonunit == 1 {
		return fmt.Sprintf("vectorlike%d", len(s))
	}
	for _, d := range s {
		if d == 1 {
			return fmt.Sprintf("nd%d-unit", len(s))
		}
	}
	return fmt.Sprintf("nd%d", len(s))
}

// shapesOver enumerates all shapes of the given rank with dims drawn from dims.
func shapesOver(rank int, dims []int) [][]int {
	if rank == 0 {
		return [][]int{{}}
	}
	var out [][]int
	for _, rest := range shapesOver(rank-1, dims) {
		for _, d := range dims {
			s := append([]int{d}, rest...)
			out = append(out, s)
		}
	}
	return out
}

// other returns an element of the same type that differs from v.
func other(v interface{}) interface{} {
	t := reflect.TypeOf(v)
	switch x := v.(type) {
	case bool:
		return !x
	case string:
		return x + "#"
	}
	c := model.FromInt(t, 77)
	if model.Same(c, v) {
		return model.FromInt(t, 78)
	}
	return c
}

func short(v interface{}) string {
	s := fmt.Sprint(v)
	if len(s) > 200 {
		s = s[:200] + "…"
	}
	return s
}
