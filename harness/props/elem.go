package props

import (
	"fmt"
	"reflect"
	"strings"

	"gorgonia.org/tensor"
	"verifharness/core"
	"verifharness/gen"
	"verifharness/model"
)

// Shared machinery for the elementwise operation matrix (C06, C07, C11, C12, C16, C17, C20):
// one executor that drives the real library call for a fully specified case and
// records everything observable; the properties' judges decide on the observation.

type ewSpec struct {
	Family string // arith | cmp | unary
	Op     string
	T      reflect.Type
	Form   string // TT | TS (tensor op Go-scalar) | ST | TSt (tensor op scalar-tensor) | StT | T (unary)
	LayA   string
	LayB   string
	Mode   string // arith/unary: safe unsafe reuse incr reuseA reuseB; cmp: bool same unsafe reuse-bool reuse-same reuseA-same
	Dest   string // layout of an explicit reuse/incr destination
	API    string // func | method
	Shape  []int
	Vals   string // small | edge | zero | nonfin
	Engine tensor.Engine
	// MaskA/MaskB: optional masks over logical positions (C15)
	MaskA, MaskB []bool
	// FixA/FixB/FixS: operand values given by the caller instead of drawn from the value class (C17: the same values in every element type)
	FixA, FixB []interface{}
	FixS       interface{}
	FixD       []interface{} // initial content of an incr destination
}

func (s ewSpec) key() string {
	return core.Sig(s.Family, s.Op, model.Name(s.T), s.Form, s.LayA, s.LayB, s.Mode, s.Dest, s.API, shapeClass(s.Shape), s.Vals)
}

func (s ewSpec) desc() map[string]interface{} {
	return map[string]interface{}{"op": s.Op, "dtype": model.Name(s.T), "form": s.Form, "layoutA": s.LayA, "layoutB": s.LayB, "mode": s.Mode,
		"dest": s.Dest, "api": s.API, "shape": s.Shape, "values": s.Vals}
}

func (s ewSpec) caseKey() string {
	return fmt.Sprintf("%s/%s/%s/%s/%s,%s/%s/%s/%s/%s/%s", s.Family, s.Op, model.Name(s.T), s.Form, s.LayA, s.LayB, s.Mode, s.Dest, s.API, shapeStr(s.Shape), s.Vals)
}

type ewTensorObs struct {
	op      *gen.Operand
	snap    interface{}
	meta    gen.Meta
	changed []int  // raw positions changed
	outside []int  // ... outside the operand's element set
	metaDif string // metadata difference
	after   *model.ND
}

type ewObs struct {
	sp       ewSpec
	A, B, D  *ewTensorObs // operands and explicit destination (nil if absent)
	scalar   interface{}
	want     *model.ND // expected safe-mode result
	defined  []bool    // coordinates where Go's operator has a value
	destInit *model.ND // destination content before the call (incr)
	panicked bool
	pmsg     string
	err      error
	res      *tensor.Dense
	resIs    string // "a","b","dest","fresh","nil"
	resM     *model.ND
	resErr   error
	precond  string // non-empty: operand precondition failed
}

func dtypeClass(t reflect.Type) string {
	switch {
	case model.IsFloat(t):
		return "float"
	case model.IsComplex(t):
		return "complex"
	case model.IsSigned(t):
		return "int"
	case model.IsInt(t):
		return "uint"
	case t.Kind() == reflect.Bool:
		return "bool"
	}
	return "str"
}

// ewValues draws operand values for a class. Results are kept pairwise distinct where the type has room.
func ewValues(c *core.Ctx, t reflect.Type, n int, class string, which int) []interface{} {
	switch class {
	case "edge", "nonfin", "zero":
		pool := gen.Pool(t, class)
		if class == "zero" {
			if which == 0 {
				return gen.Distinct(t, n, c.Rng, 3, 7)
			}
			// divisors: zeros mixed with non-zeros
			out := gen.SmallInts(t, n, c.Rng, 1, 4)
			for i := range out {
				if c.Rng.Intn(2) == 0 {
					out[i] = model.Zero(t)
				}
			}
			if n > 0 {
				out[c.Rng.Intn(n)] = model.Zero(t)
			}
			return out
		}
		if pool == nil {
			return gen.SmallInts(t, n, c.Rng, 1, 9)
		}
		return gen.FromPool(pool, n, c.Rng)
	case "neg": // negatives, zero and positives
		out := gen.SmallGauss(t, n, c.Rng, -6, 6)
		if n > 0 {
			out[c.Rng.Intn(n)] = model.Zero(t)
		}
		return out
	case "eqmix": // small range: many equal pairs
		return gen.SmallInts(t, n, c.Rng, 1, 4)
	case "alleq": // every pair equal (the boundary of the inclusive comparisons)
		out := make([]interface{}, n)
		for i := range out {
			out[i] = model.FromInt(t, 3)
		}
		return out
	case "tiny": // values 0..6 whose results are representable in every numeric type (C17)
		if which == 0 {
			return gen.SmallInts(t, n, c.Rng, 3, 6)
		}
		return gen.SmallInts(t, n, c.Rng, 1, 3)
	}
	if !model.IsNumber(t) {
		if which == 0 {
			return gen.Ramp(t, n, 1)
		}
		// comparable second operand with some equal pairs
		out := gen.Ramp(t, n, 1)
		for i := range out {
			if c.Rng.Intn(2) == 0 {
				out[i] = gen.Ramp(t, 1, int64(c.Rng.Intn(n+2)))[0]
			}
		}
		return out
	}
	if which == 0 {
		return gen.Distinct(t, n, c.Rng, 5, 7)
	}
	out := gen.SmallGauss(t, n, c.Rng, 1, 5)
	return out
}

// propEngine, when set (C20), is attached to every operand of its element type that the shared runners build.
var propEngine tensor.Engine

func engineFor(t reflect.Type) tensor.Engine {
	switch propEngine.(type) {
	case tensor.Float64Engine:
		if t == model.TF64 {
			return propEngine
		}
	case tensor.Float32Engine:
		if t == model.TF32 {
			return propEngine
		}
	}
	return nil
}

func engineName() string {
	switch propEngine.(type) {
	case tensor.Float64Engine:
		return "Float64Engine"
	case tensor.Float32Engine:
		return "Float32Engine"
	}
	return ""
}

func ewBuild(c *core.Ctx, t reflect.Type, shape []int, lay string, vals []interface{}, eng tensor.Engine, mask []bool) (*ewTensorObs, string) {
	m := model.New(t, shape, vals)
	if eng == nil {
		eng = engineFor(t)
	}
	op, err := gen.BuildWith(m, lay, c.Rng, eng)
	if err != nil {
		return nil, "operand-precondition:" + lay
	}
	if err := op.Validate(); err != nil {
		return nil, "operand-precondition:" + lay
	}
	if mask != nil {
		if err := op.AttachMask(mask); err != nil {
			return nil, "operand-precondition:mask:" + lay
		}
	}
	return &ewTensorObs{op: op}, ""
}

func (t *ewTensorObs) before() {
	t.snap = t.op.Snap()
	t.meta = gen.MetaOf(t.op.D)
}

func (t *ewTensorObs) observe() {
	t.changed = t.op.Changed(t.snap)
	t.outside = t.op.OutsideChanged(t.snap)
	t.metaDif = t.meta.Diff(gen.MetaOf(t.op.D))
	if p, msg := core.Catch(func() { t.after = t.op.Current() }); p {
		// the tensor was destroyed under the harness (released to the pool, header zeroed): that is the observation
		t.after = nil
		if t.metaDif == "" {
			t.metaDif = "tensor cannot be read afterwards: " + msg
		}
	}
}

func (t *ewTensorObs) untouched() bool { return len(t.changed) == 0 && t.metaDif == "" }

// ewScalarTensor wraps a Go scalar in a scalar tensor.
func ewScalarTensor(s interface{}) *tensor.Dense { return tensor.New(tensor.FromScalar(s)) }

var arithOps = []string{"Add", "Sub", "Mul", "Div", "Mod", "Pow", "MinBetween", "MaxBetween"}
var cmpOps = []string{"Lt", "Gt", "Lte", "Gte", "ElEq", "ElNe"}
var unaryOps = []string{"Neg", "Inv", "Square", "Cube", "Abs", "Sign", "Clamp", "Sqrt", "Cbrt", "InvSqrt", "Exp", "Log", "Log2", "Log10", "Tanh", "Apply", "ApplyErr"}

type binFn func(a, b interface{}, opts ...tensor.FuncOpt) (tensor.Tensor, error)

var pkgBin = map[string]binFn{
	"Add": tensor.Add, "Sub": tensor.Sub, "Mul": tensor.Mul, "Div": tensor.Div, "Mod": tensor.Mod, "Pow": tensor.Pow,
	"MinBetween": tensor.MinBetween, "MaxBetween": tensor.MaxBetween,
	"Lt": tensor.Lt, "Gt": tensor.Gt, "Lte": tensor.Lte, "Gte": tensor.Gte, "ElEq": tensor.ElEq, "ElNe": tensor.ElNe,
}

type unFn func(a tensor.Tensor, opts ...tensor.FuncOpt) (tensor.Tensor, error)

var pkgUn = map[string]unFn{
	"Neg": tensor.Neg, "Inv": tensor.Inv, "Square": tensor.Square, "Cube": tensor.Cube, "Abs": tensor.Abs, "Sign": tensor.Sign,
	"Sqrt": tensor.Sqrt, "Cbrt": tensor.Cbrt, "InvSqrt": tensor.InvSqrt, "Exp": tensor.Exp, "Log": tensor.Log, "Log2": tensor.Log2,
	"Log10": tensor.Log10, "Tanh": tensor.Tanh,
}

// methodBin calls the *Dense method (tensor-tensor or tensor-scalar form) by name.
func methodBin(op string, a *tensor.Dense, b interface{}, leftTensor bool, scalar bool, opts []tensor.FuncOpt) (tensor.Tensor, error, bool) {
	name := op
	if scalar {
		name = op + "Scalar"
	}
	m := reflect.ValueOf(a).MethodByName(name)
	if !m.IsValid() {
		return nil, nil, false
	}
	var args []reflect.Value
	if scalar {
		args = []reflect.Value{reflect.ValueOf(b), reflect.ValueOf(leftTensor)}
	} else {
		args = []reflect.Value{reflect.ValueOf(b)}
	}
	for _, o := range opts {
		args = append(args, reflect.ValueOf(o))
	}
	out := m.Call(args)
	var err error
	if !out[1].IsNil() {
		err = out[1].Interface().(error)
	}
	var res tensor.Tensor
	if !out[0].IsNil() {
		res = out[0].Interface().(tensor.Tensor)
	}
	return res, err, true
}

// applyFn returns a typed func(x T) T (x -> x+1, strings: x+"!" , bool: !x) for Apply, and its model.
func applyFn(t reflect.Type) (fn interface{}, mdl func(interface{}) interface{}) {
	switch t.Kind() {
	case reflect.Bool:
		return func(x bool) bool { return !x }, func(v interface{}) interface{} { return !v.(bool) }
	case reflect.String:
		return func(x string) string { return x + "!" }, func(v interface{}) interface{} { return v.(string) + "!" }
	case reflect.Int:
		return func(x int) int { return x + 1 }, nil
	case reflect.Int8:
		return func(x int8) int8 { return x + 1 }, nil
	case reflect.Int16:
		return func(x int16) int16 { return x + 1 }, nil
	case reflect.Int32:
		return func(x int32) int32 { return x + 1 }, nil
	case reflect.Int64:
		return func(x int64) int64 { return x + 1 }, nil
	case reflect.Uint:
		return func(x uint) uint { return x + 1 }, nil
	case reflect.Uint8:
		return func(x uint8) uint8 { return x + 1 }, nil
	case reflect.Uint16:
		return func(x uint16) uint16 { return x + 1 }, nil
	case reflect.Uint32:
		return func(x uint32) uint32 { return x + 1 }, nil
	case reflect.Uint64:
		return func(x uint64) uint64 { return x + 1 }, nil
	case reflect.Float32:
		return func(x float32) float32 { return x + 1 }, nil
	case reflect.Float64:
		return func(x float64) float64 { return x + 1 }, nil
	case reflect.Complex64:
		return func(x complex64) complex64 { return x + 1 }, nil
	case reflect.Complex128:
		return func(x complex128) complex128 { return x + 1 }, nil
	}
	return nil, nil
}

// applyErrFn is applyFn's function in the other signature Apply accepts: func(T) (T, error), never failing.
func applyErrFn(t reflect.Type) interface{} {
	fn, _ := applyFn(t)
	if fn == nil {
		return nil
	}
	fv := reflect.ValueOf(fn)
	errT := reflect.TypeOf((*error)(nil)).Elem()
	ft := reflect.FuncOf([]reflect.Type{t}, []reflect.Type{t, errT}, false)
	return reflect.MakeFunc(ft, func(args []reflect.Value) []reflect.Value {
		return []reflect.Value{fv.Call(args)[0], reflect.Zero(errT)}
	}).Interface()
}

func incModel(v interface{}) interface{} {
	r, _ := model.Bin("Add", v, model.One(reflect.TypeOf(v)))
	return r
}

// ewExpected computes the safe-mode result by the one generic definition.
func ewExpected(sp ewSpec, am, bm *model.ND, s interface{}) (want *model.ND, defined []bool) {
	n := len(am.V)
	v := make([]interface{}, n)
	defined = make([]bool, n)
	rt := sp.T
	for i := 0; i < n; i++ {
		var x, y interface{}
		switch sp.Form {
		case "TT":
			x, y = am.V[i], bm.V[i]
		case "TS", "TSt":
			x, y = am.V[i], s
		case "ST", "StT":
			x, y = s, am.V[i]
		case "T":
			x = am.V[i]
		}
		switch sp.Family {
		case "arith":
			v[i], defined[i] = model.Bin(sp.Op, x, y)
			if (sp.Op == "MinBetween" || sp.Op == "MaxBetween") && (isNaN(x) || isNaN(y)) {
				// no Go operator exists; math.Min and a comparison disagree about NaN: nothing is demanded there
				defined[i] = false
			}
		case "cmp":
			r, ok := model.Cmp(sp.Op, x, y)
			defined[i] = ok
			if strings.HasPrefix(sp.Mode, "bool") || sp.Mode == "reuse-bool" {
				v[i] = r
			} else if r {
				v[i] = model.One(sp.T)
			} else {
				v[i] = model.Zero(sp.T)
			}
		case "unary":
			switch sp.Op {
			case "Clamp":
				v[i], defined[i] = model.Clamp(x, model.FromInt(sp.T, 2), model.FromInt(sp.T, 5)), true
			case "Apply", "ApplyErr":
				if _, mdl := applyFn(sp.T); mdl != nil {
					v[i] = mdl(x)
				} else {
					v[i] = incModel(x)
				}
				defined[i] = true
			default:
				v[i], defined[i] = model.Unary(sp.Op, x)
			}
		}
		if !defined[i] {
			v[i] = model.Zero(rt)
		}
	}
	if sp.Family == "cmp" && (strings.HasPrefix(sp.Mode, "bool") || sp.Mode == "reuse-bool") {
		rt = model.TBool
	}
	return &model.ND{T: rt, Shape: model.CopyInts(am.Shape), V: v}, defined
}

// ewRun executes one fully specified case against the library.
func ewRun(c *core.Ctx, sp ewSpec) *ewObs {
	o := &ewObs{sp: sp}
	n := model.Size(sp.Shape)
	var pre string
	va := sp.FixA
	if va == nil {
		va = ewValues(c, sp.T, n, sp.Vals, 0)
	}
	o.A, pre = ewBuild(c, sp.T, sp.Shape, sp.LayA, va, sp.Engine, sp.MaskA)
	if pre != "" {
		o.precond = pre
		return o
	}
	if sp.Form == "TT" {
		vb := sp.FixB
		if vb == nil {
			vb = ewValues(c, sp.T, n, sp.Vals, 1)
		}
		o.B, pre = ewBuild(c, sp.T, sp.Shape, sp.LayB, vb, sp.Engine, sp.MaskB)
		if pre != "" {
			o.precond = pre
			return o
		}
	} else if sp.Form != "T" {
		o.scalar = sp.FixS
		if o.scalar == nil {
			o.scalar = ewValues(c, sp.T, 1, sp.Vals, 1)[0]
		}
	}
	var bm *model.ND
	if o.B != nil {
		bm = o.B.op.M
	}
	o.want, o.defined = ewExpected(sp, o.A.op.M, bm, o.scalar)

	// destination and options
	var opts []tensor.FuncOpt
	explicitDest := false
	switch sp.Mode {
	case "safe", "bool":
	case "same":
		opts = append(opts, tensor.AsSameType())
	case "unsafe":
		opts = append(opts, tensor.UseUnsafe())
	case "reuse", "incr", "reuse-bool", "reuse-same":
		explicitDest = true
		dt := sp.T
		if sp.Mode == "reuse-bool" {
			dt = model.TBool
		}
		var dv []interface{}
		if sp.Mode == "incr" {
			dv = sp.FixD
			if dv == nil {
				dv = gen.SmallInts(dt, n, c.Rng, 1, 3)
			}
		} else {
			dv = gen.Canary(dt, n, 99)
		}
		o.D, pre = ewBuild(c, dt, sp.Shape, sp.Dest, dv, sp.Engine, nil)
		if pre != "" {
			o.precond = pre
			return o
		}
		o.destInit = o.D.op.M
		if sp.Mode == "incr" {
			opts = append(opts, tensor.WithIncr(o.D.op.D))
		} else {
			opts = append(opts, tensor.WithReuse(o.D.op.D))
		}
		if sp.Mode == "reuse-same" {
			opts = append(opts, tensor.AsSameType())
		}
	case "reuseA", "reuseA-same":
		opts = append(opts, tensor.WithReuse(o.A.op.D))
		if sp.Mode == "reuseA-same" {
			opts = append(opts, tensor.AsSameType())
		}
	case "incrB":
		// the increment destination is the second operand: b += a op b
		if o.B == nil {
			o.precond = "no-second-tensor"
			return o
		}
		o.destInit = o.B.op.M
		opts = append(opts, tensor.WithIncr(o.B.op.D))
	case "reuseB", "reuseB-same":
		if o.B == nil {
			o.precond = "no-second-tensor"
			return o
		}
		opts = append(opts, tensor.WithReuse(o.B.op.D))
		if sp.Mode == "reuseB-same" {
			opts = append(opts, tensor.AsSameType())
		}
	case "reuse-othertype", "incr-othertype":
		// a destination of another element type (of the same element size where one exists) cannot hold the result
		ot := otherElemType(sp.T)
		o.D, pre = ewBuild(c, ot, sp.Shape, sp.Dest, gen.Canary(ot, n, 99), sp.Engine, nil)
		if pre != "" {
			o.precond = pre
			return o
		}
		o.destInit = o.D.op.M
		if sp.Mode == "incr-othertype" {
			opts = append(opts, tensor.WithIncr(o.D.op.D))
		} else {
			opts = append(opts, tensor.WithReuse(o.D.op.D))
		}
	case "reuse-unfit":
		// a comparison without AsSameType delivers bools: a destination of the operands' (non-bool) element type cannot hold them
		o.D, pre = ewBuild(c, sp.T, sp.Shape, sp.Dest, gen.Canary(sp.T, n, 99), sp.Engine, nil)
		if pre != "" {
			o.precond = pre
			return o
		}
		o.destInit = o.D.op.M
		opts = append(opts, tensor.WithReuse(o.D.op.D))
	}
	_ = explicitDest
	for _, t := range []*ewTensorObs{o.A, o.B, o.D} {
		if t != nil {
			t.before()
		}
	}
	var res tensor.Tensor
	call := func() {
		a := o.A.op.D
		switch sp.Family {
		case "unary":
			switch sp.Op {
			case "Clamp":
				res, o.err = tensor.Clamp(a, model.FromInt(sp.T, 2), model.FromInt(sp.T, 5), opts...)
			case "Apply":
				fn, _ := applyFn(sp.T)
				res, o.err = a.Apply(fn, opts...)
			case "ApplyErr":
				res, o.err = a.Apply(applyErrFn(sp.T), opts...)
			default:
				res, o.err = pkgUn[sp.Op](a, opts...)
			}
		default:
			var x, y interface{}
			switch sp.Form {
			case "TT":
				x, y = a, o.B.op.D
			case "TS":
				x, y = a, o.scalar
			case "ST":
				x, y = o.scalar, a
			case "TSt":
				x, y = a, ewScalarTensor(o.scalar)
			case "StT":
				x, y = ewScalarTensor(o.scalar), a
			}
			if sp.API == "method" {
				var ok bool
				switch sp.Form {
				case "TT":
					res, o.err, ok = methodBin(sp.Op, a, o.B.op.D, true, false, opts)
				case "TS":
					res, o.err, ok = methodBin(sp.Op, a, o.scalar, true, true, opts)
				case "ST":
					res, o.err, ok = methodBin(sp.Op, a, o.scalar, false, true, opts)
				}
				if !ok {
					o.precond = "no-such-method"
				}
				return
			}
			res, o.err = pkgBin[sp.Op](x, y, opts...)
		}
	}
	o.panicked, o.pmsg = core.Catch(call)
	if o.precond != "" {
		return o
	}
	for _, t := range []*ewTensorObs{o.A, o.B, o.D} {
		if t != nil {
			t.observe()
		}
	}
	if rv := reflect.ValueOf(res); res != nil && !(rv.Kind() == reflect.Ptr && rv.IsNil()) {
		if rd, ok := res.(*tensor.Dense); ok {
			o.res = rd
		}
	}
	switch {
	case o.res == nil:
		o.resIs = "nil"
	case o.res == o.A.op.D:
		o.resIs = "a"
	case o.B != nil && o.res == o.B.op.D:
		o.resIs = "b"
	case o.D != nil && o.res == o.D.op.D:
		o.resIs = "dest"
	default:
		o.resIs = "fresh"
	}
	if o.res != nil && !o.panicked && o.err == nil {
		o.resM, o.resErr = gen.ReadAll(o.res)
	}
	return o
}

// ewCompare compares the result model with the expectation at the defined coordinates.
// Returns "" if equal, else a symptom.
func ewCompare(o *ewObs, want *model.ND, eq func(a, b interface{}) bool) (sym string, detail string) {
	got := o.resM
	if got == nil {
		return "result-unreadable", fmt.Sprint(o.resErr)
	}
	if got.T != want.T {
		return "result-dtype", fmt.Sprintf("dtype %s, want %s", model.Name(got.T), model.Name(want.T))
	}
	if !gen.ShapeEq(got.Shape, want.Shape) {
		return "result-shape", fmt.Sprintf("shape %v, want %v", got.Shape, want.Shape)
	}
	for i := range want.V {
		if o.defined != nil && !o.defined[i] {
			continue
		}
		if !eq(got.V[i], want.V[i]) {
			return "wrong-values", fmt.Sprintf("element %v is %v, want %v", model.Unrank(want.Shape, i), got.V[i], want.V[i])
		}
	}
	return "", ""
}

// ewHypothesis names a recognisable wrong result (operand order swapped, raw storage order).
func ewHypothesis(o *ewObs, eq func(a, b interface{}) bool) string {
	sp := o.sp
	if o.resM == nil || sp.Family == "unary" || len(o.resM.V) != len(o.want.V) {
		return ""
	}
	sw := sp
	switch sp.Form {
	case "TS":
		sw.Form = "ST"
	case "ST":
		sw.Form = "TS"
	case "TSt":
		sw.Form = "StT"
	case "StT":
		sw.Form = "TSt"
	}
	var alt *model.ND
	if sp.Form == "TT" {
		alt, _ = ewExpected(sp, o.B.op.M, o.A.op.M, nil)
	} else {
		alt, _ = ewExpected(sw, o.A.op.M, nil, o.scalar)
	}
	same := true
	differs := false
	for i := range alt.V {
		if !eq(o.resM.V[i], alt.V[i]) {
			same = false
			break
		}
		if !eq(alt.V[i], o.want.V[i]) {
			differs = true
		}
	}
	if same && differs {
		return "operands-swapped"
	}
	return ""
}

func layoutPairClass(a, b string) string { return a + "," + b }

func isNaN(v interface{}) bool {
	switch x := v.(type) {
	case float32:
		return x != x
	case float64:
		return x != x
	}
	return false
}

func isZeroVal(v interface{}) bool { return model.Equal(v, model.Zero(reflect.TypeOf(v))) }

func isPosInf(v interface{}) bool {
	switch x := v.(type) {
	case float32:
		return x > 3.4e38
	case float64:
		return x > 1.7e308
	}
	return false
}

// ewFloatDivZeroModel tests the deviation hypothesis "x/0 is +Inf whatever x is" (KF): every deviating
// coordinate has a zero divisor and holds +Inf, everything else is right.
func ewFloatDivZeroModel(o *ewObs, eq func(a, b interface{}) bool) bool {
	sp := o.sp
	if sp.Op != "Div" || !model.IsFloat(sp.T) || o.resM == nil || len(o.resM.V) != len(o.want.V) {
		return false
	}
	dev := 0
	for i := range o.want.V {
		if eq(o.resM.V[i], o.want.V[i]) {
			continue
		}
		var div interface{}
		switch sp.Form {
		case "TT":
			div = o.B.op.M.V[i]
		case "TS", "TSt":
			div = o.scalar
		default:
			div = o.A.op.M.V[i]
		}
		if !isZeroVal(div) || !isPosInf(o.resM.V[i]) {
			return false
		}
		dev++
	}
	return dev > 0
}

// ---- the mode-aware judge (C07, C11, C12, C16, C20) ----

type ewPolicy struct {
	eq          func(a, b interface{}) bool
	mustSupport bool // the (op, dtype) pair must be served: a refusal is a violation
	sigDtype    bool // put the exact dtype (not its class) into signatures
	refusalOK   bool // the property lets the library refuse this layout/configuration
	sigExtra    string
}

func ewSupported(sp ewSpec) bool {
	t := sp.T
	switch sp.Family {
	case "arith":
		return model.BinSupported(sp.Op, t)
	case "cmp":
		switch sp.Op {
		case "ElEq", "ElNe":
			return model.IsNumber(t) // bool/string: refused or correct
		}
		return model.IsInt(t) || model.IsFloat(t)
	case "unary":
		switch sp.Op {
		case "Neg", "Square", "Cube", "Abs", "Sign", "Clamp":
			return model.IsFloat(t) || model.IsSigned(t)
		case "Apply", "ApplyErr":
			return true
		}
		return model.IsFloat(t)
	}
	return false
}

// ewDefinedFor says whether the one generic definition exists at all for (op, dtype).
func ewDefinedFor(sp ewSpec) bool {
	z := model.One(sp.T)
	if !model.IsNumber(sp.T) {
		z = gen.Ramp(sp.T, 1, 1)[0]
	}
	switch sp.Family {
	case "arith":
		_, ok := model.Bin(sp.Op, z, z)
		return ok
	case "cmp":
		_, ok := model.Cmp(sp.Op, z, z)
		return ok
	case "unary":
		if sp.Op == "Apply" || sp.Op == "ApplyErr" {
			return true
		}
		if sp.Op == "Clamp" {
			return model.IsInt(sp.T) || model.IsFloat(sp.T)
		}
		_, ok := model.Unary(sp.Op, z)
		return ok
	}
	return false
}

// ewJudge decides one observation. It returns true when the case was conclusive.
func ewJudge(c *core.Ctx, o *ewObs, pol ewPolicy) bool {
	sp := o.sp
	if o.precond != "" {
		if o.precond != "no-such-method" && o.precond != "no-second-tensor" {
			c.Inconclusive(o.precond)
		}
		return false
	}
	if o.A.op.Layout != sp.LayA || (o.B != nil && o.B.op.Layout != sp.LayB) || (o.D != nil && o.D.op.Layout != sp.Dest) {
		return false
	}
	dc := dtypeClass(sp.T)
	if pol.sigDtype {
		dc = model.Name(sp.T)
	}
	lp := layoutPairClass(sp.LayA, sp.LayB)
	viol := func(symptom string, want, got interface{}) {
		parts := []string{sp.Op, sp.Form, lp, sp.Mode}
		if sp.Dest != "" {
			parts = append(parts, "dest="+sp.Dest)
		}
		parts = append(parts, dc, symptom)
		if pol.sigExtra != "" {
			parts = append(parts, pol.sigExtra)
		}
		c.Violation(core.Sig(parts...), sp.caseKey(), sp.desc(), want, got)
	}
	hasUndefined := false
	for _, d := range o.defined {
		if !d {
			hasUndefined = true
		}
	}
	// which tensor is the designated destination?
	var dest *ewTensorObs
	destName := "fresh"
	switch sp.Mode {
	case "unsafe", "reuseA", "reuseA-same":
		dest, destName = o.A, "a"
	case "reuseB", "reuseB-same", "incrB":
		dest, destName = o.B, "b"
	case "reuse", "incr", "reuse-bool", "reuse-same", "reuse-unfit", "reuse-othertype", "incr-othertype":
		dest, destName = o.D, "dest"
	}
	destLay := sp.Dest
	switch sp.Mode {
	case "reuseA", "reuseA-same":
		destLay = sp.LayA
	case "reuseB", "reuseB-same", "incrB":
		destLay = sp.LayB
	}
	if sp.Mode == "reuse-othertype" || sp.Mode == "incr-othertype" {
		// a refusal that leaves everything as it was; an operation that accepts must still deliver the safe-mode values
		// in a tensor of the result's element type (nothing in the library converts, so this is not expected to happen)
		if !o.panicked && o.err == nil {
			okRes := false
			if o.res != nil && o.want != nil && o.res.Dtype().Type == o.want.T {
				if rm, e := gen.ReadAll(o.res); e == nil && gen.ShapeEq(rm.Shape, o.want.Shape) {
					okRes = true
					for i := range rm.V {
						if o.defined != nil && !o.defined[i] {
							continue
						}
						if !pol.eq(rm.V[i], o.want.V[i]) {
							okRes = false
							break
						}
					}
				}
			}
			if !okRes {
				viol("other-type-destination-accepted", "refused (the destination has another element type)", fmt.Sprint("a result in a ", o.D.op.D.Dtype(), " destination"))
				return true
			}
			c.Tally("other-type-destination-served:" + sp.Op)
			return true
		}
		for name, t := range map[string]*ewTensorObs{"a": o.A, "b": o.B, "dest": o.D} {
			if t != nil && !t.untouched() {
				viol("other-type-destination-"+name+"-changed", "a refusal that writes nothing", fmt.Sprint(t.changed[:min(len(t.changed), 6)], " ", t.metaDif))
				return true
			}
		}
		c.Refused("other-type-destination:" + sp.Op)
		return true
	}
	if sp.Mode == "reuse-unfit" {
		// the only acceptable outcome is a refusal that leaves everything as it was
		for name, t := range map[string]*ewTensorObs{"a": o.A, "b": o.B, "dest": o.D} {
			if t != nil && !t.untouched() {
				viol("unfit-destination-"+name+"-changed", "a refusal that writes nothing", fmt.Sprint(t.changed[:min(len(t.changed), 6)], " ", t.metaDif))
				return true
			}
		}
		if !o.panicked && o.err == nil {
			viol("unfit-destination-accepted", "refused (bools do not fit the destination's element type)", "a result")
			return true
		}
		c.Refused("unfit-destination:" + sp.Op)
		return true
	}
	// frame: every tensor other than the destination is bit-identical, and nothing outside any tensor's element set changed
	for name, t := range map[string]*ewTensorObs{"a": o.A, "b": o.B, "dest": o.D} {
		if t == nil {
			continue
		}
		if len(t.outside) > 0 {
			viol("outside-"+name+"-changed", "bytes outside the tensor untouched", fmt.Sprintf("%d positions, first %v", len(t.outside), t.outside[:min(len(t.outside), 6)]))
			return true
		}
		if t == o.A && (sp.Mode == "incr" || sp.Mode == "incrB") && sp.Family == "arith" && len(o.want.V) == 1 && t.metaDif == "" && pol.eq(t.after.V[0], o.want.V[0]) {
			// deviation hypothesis (KF): with single-element operands the increment kernels compute a op b in a's own buffer
			c.Violation(core.Sig("incr", "single-element", "operand-a-overwritten-with-result"), sp.caseKey(), sp.desc(), "a untouched", fmt.Sprint("a became ", t.after.V[0]))
			return true
		}
		if t != dest && !t.untouched() {
			viol("non-destination-"+name+"-changed", name+" untouched", fmt.Sprint(t.changed[:min(len(t.changed), 6)], " ", t.metaDif))
			return true
		}
	}
	supported := ewDefinedFor(sp)
	refused := o.panicked || o.err != nil
	if refused {
		msg := o.pmsg
		if o.err != nil {
			msg = o.err.Error()
		}
		// a refusal must not have written the destination either (integer zero-divisor reports excepted: they write by design)
		if dest != nil && !dest.untouched() && !hasUndefined {
			viol("refused-after-writing", "a refusal writes nothing", msg)
			return true
		}
		switch {
		case !supported:
			c.Refused("unsupported:" + sp.Op + ":" + dc)
		case hasUndefined:
			c.Refused("zero-divisor")
		case pol.refusalOK:
			c.Refused("allowed:" + sp.Op + ":" + lp)
		case destLay != "" && destLay != gen.LC && destLay != gen.LMS && destLay != gen.LMT && destLay != gen.LMSS && destLay != gen.LF && destLay != gen.LFconv:
			// a view (or lazily transposed tensor) as destination: the statement neither allows nor forbids refusing it
			c.Refused("view-destination:" + sp.Op + ":" + destLay)
		case !ewSupported(sp) && !pol.mustSupport:
			c.Refused("optional-type:" + sp.Op + ":" + dc)
		case o.panicked:
			viol("panic", "a result", msg)
		default:
			viol("refused-valid-call", "a result", msg)
		}
		return true
	}
	if !supported {
		viol("computed-unsupported", "a refusal", "a result")
		return true
	}
	// identity of the returned tensor
	if o.resIs != destName {
		viol("wrong-result-identity", destName, o.resIs)
		return true
	}
	if destName == "fresh" {
		if overlaps(o.res, o.A.op.Root) || (o.B != nil && overlaps(o.res, o.B.op.Root)) {
			viol("fresh-result-shares-storage", "fresh storage", "overlaps an operand")
			return true
		}
	}
	want := o.want
	if sp.Mode == "incr" || sp.Mode == "incrB" {
		v := make([]interface{}, len(want.V))
		for i := range v {
			v[i], _ = model.Bin("Add", o.destInit.V[i], want.V[i])
		}
		want = &model.ND{T: want.T, Shape: want.Shape, V: v}
	}
	if sym, detail := ewCompare(o, want, pol.eq); sym != "" {
		if sym == "wrong-values" && ewFloatDivZeroModel(o, pol.eq) {
			c.Violation(core.Sig("Div", "float", "zero-divisor-gives-+Inf"), sp.caseKey(), sp.desc(), short(want.V), detail)
			return true
		}
		if h := ewHypothesis(o, pol.eq); h != "" && sp.Mode != "incr" {
			sym = h
		}
		viol(sym, short(want.V), detail)
		return true
	}
	// the destination's own memory holds the delivered values (the view and its parent agree)
	if dest != nil {
		if e := gen.ReadMatchesBy(dest.op.D, want, pol.eq); e != nil {
			viol("destination-does-not-hold-result", short(want.V), e.Error())
		}
	}
	return true
}

// otherElemType picks an element type different from t, of the same element size where there is one (a kernel that
// trusts the destination's storage then writes plausible-looking garbage rather than failing).
func otherElemType(t reflect.Type) reflect.Type {
	switch t {
	case model.TF64:
		return model.TInt64
	case model.TF32:
		return model.TInt32
	case model.TInt, model.TInt64, model.TUint64, model.TUint:
		return model.TF64
	case model.TInt32, model.TUint32:
		return model.TF32
	case model.TInt8:
		return model.TUint8
	case model.TUint8:
		return model.TInt8
	case model.TInt16:
		return model.TUint16
	case model.TUint16:
		return model.TInt16
	case model.TC64:
		return model.TF64
	}
	return model.TF64
}
