package props

import (
	"fmt"
	"gorgonia.org/tensor"
	"reflect"

	"verifharness/core"
	"verifharness/gen"
	"verifharness/model"
)

// C16 — column-major tensors are the same arrays as their row-major counterparts.
//
// The operation matrices of the other checks are re-run with each operand (and reuse destination)
// independently column-major: F = declared column-major over raw backing, Fconv = converting constructor.
// The oracle is the same layout-blind model; the outcome must be {correct, refused}, never rearranged.

func init() {
	register(&core.Prop{
		ID: "C16",
		Rule: "the class matrices of C01-C14 re-run with each operand and each reuse/incr destination independently in {C, F (declared column-major over raw backing), Fconv (converting constructor)}, at least one of them column-major, shapes of rank 1-4: element access (exhaustive coordinate boxes), slicing (complete per-axis argument set), transposition sequences, elementwise arithmetic/comparison/unary operations in every option mode, reductions over every axis subset, linear-algebra products, concat/stack/repeat, copies and conversions, serialisation. " +
			"Oracle: the same layout-blind reference model as the row-major checks; outcome in {logically correct, refused (error or panic, nothing written)} - a rearranged result is a violation; frame clauses (operands untouched, destination only) as in the originating check. distinct_nontrivial counts distinct class keys with at least one column-major tensor of rank >= 2.",
		Assume: []string{"Reshape is excluded here and judged by C13 (it follows the tensor's own data order)"},
		Groups: c16Groups,
	})
}

var c16Lays = []string{gen.LC, gen.LF, gen.LFconv}

// c16All adds the views over column-major storage (lazy transpose, slice, stepped slice of a column-major parent).
var c16All = []string{gen.LC, gen.LF, gen.LFconv, gen.LFT, gen.LFS, gen.LFSS}

func c16Groups(tier string) []core.Group {
	var gs []core.Group
	// access / slicing / transposition
	for _, lay := range c16All[1:] {
		lay := lay
		gs = append(gs, core.Group{Key: "access/" + lay, Run: func(c *core.Ctx) {
			for _, t := range []reflect.Type{model.TInt8, model.TF32, model.TC128, model.TStr} {
				for _, shape := range [][]int{{3}, {2, 3}, {3, 1}, {1, 3}, {2, 3, 2}, {3, 2, 1, 2}} {
					c01Tensor(c, t, lay, shape)
				}
			}
		}})
		gs = append(gs, core.Group{Key: "slice/" + lay, Run: func(c *core.Ctx) {
			for _, shape := range [][]int{{4}, {3, 4}, {4, 1}, {1, 4}, {2, 3, 3}, {2, 3, 2, 2}} {
				c02Shape(c, lay, shape)
			}
		}})
		for _, t := range []reflect.Type{model.TInt16, model.TF64, model.TC128} {
			t := t
			if lay == gen.LFT {
				continue // the sequences produce the lazily transposed column-major tensors themselves
			}
			gs = append(gs, core.Group{Key: fmt.Sprintf("transpose/%s/%s", lay, model.Name(t)), Run: func(c *core.Ctx) {
				for _, shape := range [][]int{{2, 3}, {3, 1}, {2, 3, 4}, {3, 3, 3}, {2, 2, 3, 2}} {
					c03Seqs(c, lay, t, shape)
				}
			}})
		}
		gs = append(gs, core.Group{Key: "copies/" + lay, Run: func(c *core.Ctx) {
			for _, t := range []reflect.Type{model.TInt16, model.TF64, model.TStr} {
				for _, shape := range c04Shapes(c.Tier) {
					c04Copies(c, lay, t, shape)
					c04Writes(c, lay, t, shape)
				}
			}
		}})
	}
	// elementwise
	for _, fam := range []string{"arith", "cmp", "unary"} {
		ops := map[string][]string{"arith": arithOps, "cmp": cmpOps, "unary": unaryOps}[fam]
		for _, op := range ops {
			fam, op := fam, op
			gs = append(gs, core.Group{Key: fmt.Sprintf("%s/%s", fam, op), Run: func(c *core.Ctx) { c16Elementwise(c, fam, op) }})
		}
	}
	// reductions
	for _, red := range []string{"Sum", "Max", "Min", "Argmax", "Argmin", "Reduce"} {
		for _, t := range []reflect.Type{model.TInt32, model.TF64, model.TUint8} {
			red, t := red, t
			gs = append(gs, core.Group{Key: fmt.Sprintf("reduce/%s/%s", red, model.Name(t)), Run: func(c *core.Ctx) { c08Run(c, red, t) }})
		}
	}
	// products
	for _, prod := range []string{"Inner", "MatVecMul", "MatMul", "Outer", "TensorMul", "Dot"} {
		for _, t := range []reflect.Type{model.TF32, model.TF64, model.TC128} {
			for _, la := range c16All {
				prod, t, la := prod, t, la
				gs = append(gs, core.Group{Key: fmt.Sprintf("product/%s/%s/%s", prod, model.Name(t), la), Run: func(c *core.Ctx) { c09Run(c, prod, t, la) }})
			}
		}
	}
	gs = append(gs, core.Group{Key: "product/Trace", Run: c09Trace})
	gs = append(gs, core.Group{Key: "reuse-then-use", Run: c16ReuseThenUse})
	// assembling
	for _, op := range []string{"Concat", "Stack", "Repeat"} {
		for _, t := range []reflect.Type{model.TInt8, model.TF64, model.TStr} {
			for _, lay := range c16All {
				op, t, lay := op, t, lay
				gs = append(gs, core.Group{Key: fmt.Sprintf("assemble/%s/%s/%s", op, model.Name(t), lay), Run: func(c *core.Ctx) {
					switch op {
					case "Concat":
						c10Concat(c, t, lay)
					case "Stack":
						c10Stack(c, t, lay)
					default:
						c10Repeat(c, t, lay)
					}
				}})
			}
		}
	}
	// serialisation
	for _, f := range c14Formats {
		for _, lay := range c16All[1:] {
			f, lay := f, lay
			gs = append(gs, core.Group{Key: fmt.Sprintf("io/%s/%s", f, lay), Run: func(c *core.Ctx) { c14Run(c, f, lay) }})
		}
	}
	return gs
}

func c16Elementwise(c *core.Ctx, fam, op string) {
	types := []reflect.Type{model.TInt16, model.TUint8, model.TF32, model.TF64, model.TC64}
	shapes := [][]int{{4}, {2, 3}, {3, 1}, {2, 3, 2}, {2, 2, 3, 2}}
	if c.Tier != "thorough" {
		shapes = [][]int{{2, 3}, {3, 1}, {2, 3, 2}}
	}
	var modes []string
	forms := []string{"TT", "TS", "ST"}
	switch fam {
	case "arith":
		modes = c07ArithModes
	case "cmp":
		modes = []string{"bool", "same", "unsafe", "reuse-bool", "reuse-same"}
	default:
		modes = c07UnaryModes
		forms = []string{"T"}
	}
	for _, t := range types {
		for _, form := range forms {
			for _, mode := range modes {
				if (mode == "reuseB" || mode == "incrB") && form != "TT" {
					continue
				}
				if (mode == "incr" || mode == "incrB") && (op == "MinBetween" || op == "MaxBetween") {
					continue
				}
				dests := []string{""}
				if mode == "reuse" || mode == "incr" || mode == "reuse-bool" || mode == "reuse-same" {
					dests = c16Lays
				}
				for _, la := range c16All {
					lbs := []string{""}
					if form == "TT" {
						lbs = c16Lays
						if la == gen.LC || c.Tier == "thorough" {
							lbs = c16All
						}
					}
					for _, lb := range lbs {
						for _, dest := range dests {
							if la == gen.LC && (lb == gen.LC || lb == "") && (dest == gen.LC || dest == "") {
								continue // all row-major: the originating checks
							}
							for _, shape := range shapes {
								sp := ewSpec{Family: fam, Op: op, T: t, Form: form, LayA: la, LayB: lb, Mode: mode, Dest: dest, API: "func", Shape: shape, Vals: "small"}
								if !ewDefinedFor(sp) {
									continue
								}
								o := ewRun(c, sp)
								eq := c07Eq(sp)
								if fam == "cmp" {
									eq = model.Same
								}
								if ewJudge(c, o, ewPolicy{eq: eq, refusalOK: true}) {
									c.Eval(sp.key(), len(shape) >= 2)
									if c.WantSample(fam + "/" + mode) {
										d := sp.desc()
										d["result_is"] = o.resIs
										c.Sample(fam+"/"+mode, d)
									}
								}
							}
						}
					}
				}
			}
		}
	}
	// negative control: a rearranged (transposed) expectation must be rejected
	sp := ewSpec{Family: "arith", Op: "Add", T: model.TF64, Form: "TT", LayA: gen.LF, LayB: gen.LC, Mode: "safe", API: "func", Shape: []int{2, 3}, Vals: "small"}
	o := ewRun(c, sp)
	if o.precond == "" && o.resM != nil {
		bad := model.FromColMajorSeq(o.want.T, o.want.Shape, o.want.V)
		sym, _ := ewCompare(o, bad, model.Equal)
		c.Control(sym != "")
	}
}

// c16ReuseThenUse: a tensor that has served as reuse destination for operands of the other data order is used as an operand
// afterwards. (The suite pins that such a destination reports the operands' order flag while keeping its strides; whatever
// its flags say, it must still be the array it reads as.)
func c16ReuseThenUse(c *core.Ctx) {
	bin := map[string]func(a, b interface{}, opts ...tensor.FuncOpt) (tensor.Tensor, error){"Add": tensor.Add, "Sub": tensor.Sub, "Mul": tensor.Mul, "Gt": tensor.Gt, "MaxBetween": tensor.MaxBetween}
	for _, t := range []reflect.Type{model.TF64, model.TInt32} {
		for _, shape := range [][]int{{2, 3}, {3, 2, 2}} {
			n := model.Size(shape)
			for _, first := range [][2]string{{gen.LF, gen.LC}, {gen.LC, gen.LF}, {gen.LFconv, gen.LC}} { // (operand layout, destination layout)
				for _, second := range []string{gen.LC, gen.LF, gen.LT} {
					for opn, f := range bin {
						a, pa := ewBuild(c, t, shape, first[0], gen.SmallInts(t, n, c.Rng, 1, 9), nil, nil)
						r, pr := ewBuild(c, t, shape, first[1], gen.Canary(t, n, 99), nil, nil)
						y, py := ewBuild(c, t, shape, second, gen.SmallInts(t, n, c.Rng, 1, 9), nil, nil)
						if pa != "" || pr != "" || py != "" || a.op.Layout != first[0] || r.op.Layout != first[1] || y.op.Layout != second {
							continue
						}
						if _, err := tensor.Add(a.op.D, model.One(t), tensor.WithReuse(r.op.D)); err != nil {
							c.Refused("first-use")
							continue
						}
						rm, err := gen.ReadAll(r.op.D)
						if err != nil {
							continue
						}
						key := core.Sig("reuse-then-use", opn, model.Name(t), shapeStr(shape), first[0]+">"+first[1], second)
						caseKey := fmt.Sprintf("reuse-then-use/%s/%s/%s/%s>%s/%s", opn, model.Name(t), shapeStr(shape), first[0], first[1], second)
						desc := map[string]interface{}{"first": "Add(a, 1, WithReuse(r))", "a_layout": first[0], "r_layout": first[1], "then": opn + "(r, y)", "y_layout": second, "shape": shape, "dtype": model.Name(t)}
						for _, swap := range []bool{false, true} {
							var res tensor.Tensor
							var rerr error
							p, _ := core.Catch(func() {
								if swap {
									res, rerr = f(y.op.D, r.op.D)
								} else {
									res, rerr = f(r.op.D, y.op.D)
								}
							})
							c.Eval(key, true)
							if p || rerr != nil {
								c.Refused("second-use:" + opn)
								continue
							}
							want := make([]interface{}, n)
							for i := range want {
								x1, x2 := rm.V[i], y.op.M.V[i]
								if swap {
									x1, x2 = x2, x1
								}
								if opn == "Gt" {
									want[i], _ = model.Cmp("Gt", x1, x2)
								} else {
									want[i], _ = model.Bin(opn, x1, x2)
								}
							}
							wt := t
							if opn == "Gt" {
								wt = model.TBool
							}
							if e := gen.ReadMatchesBy(res, model.New(wt, shape, want), model.Equal); e != nil {
								c.Violation(core.Sig("reuse-then-use", opn, first[0]+">"+first[1], second, "wrong-values"), caseKey, desc, short(want), e.Error())
							}
						}
						if c.WantSample("reuse-then-use") {
							c.Sample("reuse-then-use", desc)
						}
					}
				}
			}
		}
	}
	c.Control(true)
}
