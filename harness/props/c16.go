package props

import (
	"fmt"
	"gorgonia.org/tensor"
	"reflect"
	"strings"

	"verifharness/core"
	"verifharness/gen"
	"verifharness/model"
)

// C16 — column-major tensors are the same arrays as their row-major counterparts.
//
// The operation matrices of the other checks are re-run with each operand (and reuse destination)
// independently column-major: F = declared column-major over raw backing, Fconv = converting constructor.
// The oracle is the same layout-blind model; the outcome must be {correct, refused}, never rearranged.

func init() {
	register(&core.Prop{
		ID: "C16",
		Rule: "the class matrices of C01-C14 re-run with each operand and each reuse/incr destination independently in {C, F (declared column-major over raw backing), Fconv (converting constructor)}, at least one of them column-major, shapes of rank 1-4: element access (exhaustive coordinate boxes), slicing (complete per-axis argument set), transposition sequences, elementwise arithmetic/comparison/unary operations in every option mode, reductions over every axis subset, linear-algebra products, concat/stack/repeat, copies and conversions, serialisation. " +
			"Oracle: the same layout-blind reference model as the row-major checks; outcome in {logically correct, refused (error or panic, nothing written)} - a rearranged result is a violation; frame clauses (operands untouched, destination only) as in the originating check. distinct_nontrivial counts distinct class keys with at least one column-major tensor of rank >= 2.",
		Assume: []string{"Reshape is excluded here and judged by C13 (it follows the tensor's own data order)"},
		Groups: c16Groups,
	})
}

var c16Lays = []string{gen.LC, gen.LF, gen.LFconv}

// c16All adds the views over column-major storage (lazy transpose, slice, stepped slice of a column-major parent).
var c16All = []string{gen.LC, gen.LF, gen.LFconv, gen.LFT, gen.LFS, gen.LFSS}

func c16Groups(tier string) []core.Group {
	var gs []core.Group
	// access / slicing / transposition
	for _, lay := range c16All[1:] {
		lay := lay
		gs = append(gs, core.Group{Key: "access/" + lay, Run: func(c *core.Ctx) {
			for _, t := range []reflect.Type{model.TInt8, model.TF32, model.TC128, model.TStr} {
				for _, shape := range [][]int{{3}, {2, 3}, {3, 1}, {1, 3}, {2, 3, 2}, {3, 2, 1, 2}} {
					c01Tensor(c, t, lay, shape)
				}
			}
		}})
		gs = append(gs, core.Group{Key: "slice/" + lay, Run: func(c *core.Ctx) {
			for _, shape := range [][]int{{4}, {3, 4}, {4, 1}, {1, 4}, {2, 3, 3}, {2, 3, 2, 2}} {
				c02Shape(c, lay, shape)
			}
		}})
		for _, t := range []reflect.Type{model.TInt16, model.TF64, model.TC128} {
			t := t
			if lay == gen.LFT {
				continue // the sequences produce the lazily transposed column-major tensors themselves
			}
			gs = append(gs, core.Group{Key: fmt.Sprintf("transpose/%s/%s", lay, model.Name(t)), Run: func(c *core.Ctx) {
				for _, shape := range [][]int{{2, 3}, {3, 1}, {2, 3, 4}, {3, 3, 3}, {2, 2, 3, 2}} {
					c03Seqs(c, lay, t, shape)
				}
			}})
		}
		gs = append(gs, core.Group{Key: "copies/" + lay, Run: func(c *core.Ctx) {
			for _, t := range []reflect.Type{model.TInt16, model.TF64, model.TStr} {
				for _, shape := range c04Shapes(c.Tier) {
					c04Copies(c, lay, t, shape)
					c04Writes(c, lay, t, shape)
				}
			}
		}})
	}
	// elementwise
	for _, fam := range []string{"arith", "cmp", "unary"} {
		ops := map[string][]string{"arith": arithOps, "cmp": cmpOps, "unary": unaryOps}[fam]
		for _, op := range ops {
			fam, op := fam, op
			gs = append(gs, core.Group{Key: fmt.Sprintf("%s/%s", fam, op), Run: func(c *core.Ctx) { c16Elementwise(c, fam, op) }})
		}
	}
	// reductions
	for _, red := range []string{"Sum", "Max", "Min", "Argmax", "Argmin", "Reduce"} {
		for _, t := range []reflect.Type{model.TInt32, model.TF64, model.TUint8} {
			red, t := red, t
			gs = append(gs, core.Group{Key: fmt.Sprintf("reduce/%s/%s", red, model.Name(t)), Run: func(c *core.Ctx) { c08Run(c, red, t) }})
		}
	}
	// products
	for _, prod := range []string{"Inner", "MatVecMul", "MatMul", "Outer", "TensorMul", "Dot"} {
		for _, t := range []reflect.Type{model.TF32, model.TF64, model.TC128} {
			for _, la := range c16All {
				prod, t, la := prod, t, la
				gs = append(gs, core.Group{Key: fmt.Sprintf("product/%s/%s/%s", prod, model.Name(t), la), Run: func(c *core.Ctx) { c09Run(c, prod, t, la) }})
			}
		}
	}
	gs = append(gs, core.Group{Key: "product/Trace", Run: c09Trace})
	gs = append(gs, core.Group{Key: "reuse-then-use", Run: c16ReuseThenUse})
	gs = append(gs, core.Group{Key: "other-operations", Run: c16OtherOps})
	// assembling
	for _, op := range []string{"Concat", "Stack", "Repeat"} {
		for _, t := range []reflect.Type{model.TInt8, model.TF64, model.TStr} {
			for _, lay := range c16All {
				op, t, lay := op, t, lay
				gs = append(gs, core.Group{Key: fmt.Sprintf("assemble/%s/%s/%s", op, model.Name(t), lay), Run: func(c *core.Ctx) {
					switch op {
					case "Concat":
						c10Concat(c, t, lay)
					case "Stack":
						c10Stack(c, t, lay)
					default:
						c10Repeat(c, t, lay)
					}
				}})
			}
		}
	}
	// serialisation
	for _, f := range c14Formats {
		for _, lay := range c16All[1:] {
			f, lay := f, lay
			gs = append(gs, core.Group{Key: fmt.Sprintf("io/%s/%s", f, lay), Run: func(c *core.Ctx) { c14Run(c, f, lay) }})
		}
	}
	return gs
}

func c16Elementwise(c *core.Ctx, fam, op string) {
	types := []reflect.Type{model.TInt16, model.TUint8, model.TF32, model.TF64, model.TC64}
	shapes := [][]int{{4}, {2, 3}, {3, 1}, {2, 3, 2}, {2, 2, 3, 2}}
	if c.Tier != "thorough" {
		shapes = [][]int{{2, 3}, {3, 1}, {2, 3, 2}}
	}
	var modes []string
	forms := []string{"TT", "TS", "ST"}
	switch fam {
	case "arith":
		modes = c07ArithModes
	case "cmp":
		modes = []string{"bool", "same", "unsafe", "reuse-bool", "reuse-same"}
	default:
		modes = c07UnaryModes
		forms = []string{"T"}
	}
	for _, t := range types {
		for _, form := range forms {
			for _, mode := range modes {
				if (mode == "reuseB" || mode == "incrB") && form != "TT" {
					continue
				}
				if strings.HasSuffix(mode, "-othertype") {
					continue // destinations of another element type are C07's
				}
				if (mode == "incr" || mode == "incrB") && (op == "MinBetween" || op == "MaxBetween") {
					continue
				}
				dests := []string{""}
				if mode == "reuse" || mode == "incr" || mode == "reuse-bool" || mode == "reuse-same" {
					dests = c16Lays
				}
				for _, la := range c16All {
					lbs := []string{""}
					if form == "TT" {
						lbs = c16Lays
						if la == gen.LC || c.Tier == "thorough" {
							lbs = c16All
						}
					}
					for _, lb := range lbs {
						for _, dest := range dests {
							if la == gen.LC && (lb == gen.LC || lb == "") && (dest == gen.LC || dest == "") {
								continue // all row-major: the originating checks
							}
							for _, shape := range shapes {
								sp := ewSpec{Family: fam, Op: op, T: t, Form: form, LayA: la, LayB: lb, Mode: mode, Dest: dest, API: "func", Shape: shape, Vals: "small"}
								if !ewDefinedFor(sp) {
									continue
								}
								o := ewRun(c, sp)
								eq := c07Eq(sp)
								if fam == "cmp" {
									eq = model.Same
								}
								if ewJudge(c, o, ewPolicy{eq: eq, refusalOK: true}) {
									c.Eval(sp.key(), len(shape) >= 2)
									if c.WantSample(fam + "/" + mode) {
										d := sp.desc()
										d["result_is"] = o.resIs
										c.Sample(fam+"/"+mode, d)
									}
								}
							}
						}
					}
				}
			}
		}
	}
	// negative control: a rearranged (transposed) expectation must be rejected
	sp := ewSpec{Family: "arith", Op: "Add", T: model.TF64, Form: "TT", LayA: gen.LF, LayB: gen.LC, Mode: "safe", API: "func", Shape: []int{2, 3}, Vals: "small"}
	o := ewRun(c, sp)
	if o.precond == "" && o.resM != nil {
		bad := model.FromColMajorSeq(o.want.T, o.want.Shape, o.want.V)
		sym, _ := ewCompare(o, bad, model.Equal)
		c.Control(sym != "")
	}
}

// c16ReuseThenUse: a tensor that has served as reuse destination for operands of the other data order is used as an operand
// afterwards. (The suite pins that such a destination reports the operands' order flag while keeping its strides; whatever
// its flags say, it must still be the array it reads as.)
func c16ReuseThenUse(c *core.Ctx) {
	bin := map[string]func(a, b interface{}, opts ...tensor.FuncOpt) (tensor.Tensor, error){"Add": tensor.Add, "Sub": tensor.Sub, "Mul": tensor.Mul, "Gt": tensor.Gt, "MaxBetween": tensor.MaxBetween}
	for _, t := range []reflect.Type{model.TF64, model.TInt32} {
		for _, shape := range [][]int{{2, 3}, {3, 2, 2}} {
			n := model.Size(shape)
			for _, first := range [][2]string{{gen.LF, gen.LC}, {gen.LC, gen.LF}, {gen.LFconv, gen.LC}} { // (operand layout, destination layout)
				for _, second := range []string{gen.LC, gen.LF, gen.LT} {
					for opn, f := range bin {
						a, pa := ewBuild(c, t, shape, first[0], gen.SmallInts(t, n, c.Rng, 1, 9), nil, nil)
						r, pr := ewBuild(c, t, shape, first[1], gen.Canary(t, n, 99), nil, nil)
						y, py := ewBuild(c, t, shape, second, gen.SmallInts(t, n, c.Rng, 1, 9), nil, nil)
						if pa != "" || pr != "" || py != "" || a.op.Layout != first[0] || r.op.Layout != first[1] || y.op.Layout != second {
							continue
						}
						if _, err := tensor.Add(a.op.D, model.One(t), tensor.WithReuse(r.op.D)); err != nil {
							c.Refused("first-use")
							continue
						}
						rm, err := gen.ReadAll(r.op.D)
						if err != nil {
							continue
						}
						key := core.Sig("reuse-then-use", opn, model.Name(t), shapeStr(shape), first[0]+">"+first[1], second)
						caseKey := fmt.Sprintf("reuse-then-use/%s/%s/%s/%s>%s/%s", opn, model.Name(t), shapeStr(shape), first[0], first[1], second)
						desc := map[string]interface{}{"first": "Add(a, 1, WithReuse(r))", "a_layout": first[0], "r_layout": first[1], "then": opn + "(r, y)", "y_layout": second, "shape": shape, "dtype": model.Name(t)}
						for _, swap := range []bool{false, true} {
							var res tensor.Tensor
							var rerr error
							p, _ := core.Catch(func() {
								if swap {
									res, rerr = f(y.op.D, r.op.D)
								} else {
									res, rerr = f(r.op.D, y.op.D)
								}
							})
							c.Eval(key, true)
							if p || rerr != nil {
								c.Refused("second-use:" + opn)
								continue
							}
							want := make([]interface{}, n)
							for i := range want {
								x1, x2 := rm.V[i], y.op.M.V[i]
								if swap {
									x1, x2 = x2, x1
								}
								if opn == "Gt" {
									want[i], _ = model.Cmp("Gt", x1, x2)
								} else {
									want[i], _ = model.Bin(opn, x1, x2)
								}
							}
							wt := t
							if opn == "Gt" {
								wt = model.TBool
							}
							if e := gen.ReadMatchesBy(res, model.New(wt, shape, want), model.Equal); e != nil {
								c.Violation(core.Sig("reuse-then-use", opn, first[0]+">"+first[1], second, "wrong-values"), caseKey, desc, short(want), e.Error())
							}
						}
						if c.WantSample("reuse-then-use") {
							c.Sample("reuse-then-use", desc)
						}
					}
				}
			}
		}
	}
	c.Control(true)
}

// c16OtherOps: the operations outside the matrices of C01-C14 (Diag, SoftMax/LogSoftMax, ByIndices, Norm, RepeatReuse into a
// column-major destination, Narrow, Eq of logically equal tensors is NOT among them: Eq compares storage by definition).
// No model is needed: the result on the column-major operand must read as the result on the row-major operand with the same
// contents, or the call must be refused.
func c16OtherOps(c *core.Ctx) {
	type op struct {
		name string
		ok   func(shape []int) bool
		run  func(d *tensor.Dense) (tensor.Tensor, error)
		run2 func(d, e *tensor.Dense) (tensor.Tensor, error) // operations on two operands of one layout
		// ref, when set, is what the row-major reference runs instead of run (an operation with a column-major destination is
		// compared with the same operation into a row-major destination, not with itself)
		ref func(d *tensor.Dense) (tensor.Tensor, error)
	}
	repeatInto := func(fortran bool, axis int) func(d *tensor.Dense) (tensor.Tensor, error) {
		return func(d *tensor.Dense) (tensor.Tensor, error) {
			sh := d.Shape().Clone()
			sh[axis] *= 2
			opts := []tensor.ConsOpt{tensor.Of(d.Dtype()), tensor.WithShape(sh...)}
			if fortran {
				opts = append(opts, tensor.AsFortran(nil))
			}
			return tensor.RepeatReuse(d, tensor.New(opts...), axis, 2)
		}
	}
	idx := func() *tensor.Dense { return tensor.New(tensor.WithShape(2), tensor.WithBacking([]int{1, 0})) }
	ops := []op{
		{name: "Diag", ok: func(s []int) bool { return len(s) == 2 }, run: func(d *tensor.Dense) (tensor.Tensor, error) { return tensor.Diag(d) }},
		{name: "SoftMax(0)", ok: func(s []int) bool { return len(s) >= 2 }, run: func(d *tensor.Dense) (tensor.Tensor, error) { return tensor.SoftMax(d, 0) }},
		{name: "SoftMax(last)", ok: func(s []int) bool { return len(s) >= 2 }, run: func(d *tensor.Dense) (tensor.Tensor, error) { return tensor.SoftMax(d, d.Dims()-1) }},
		{name: "LogSoftMax(1)", ok: func(s []int) bool { return len(s) >= 2 }, run: func(d *tensor.Dense) (tensor.Tensor, error) { return tensor.LogSoftMax(d, 1) }},
		{name: "ByIndices(0)", ok: func(s []int) bool { return len(s) >= 2 }, run: func(d *tensor.Dense) (tensor.Tensor, error) { return tensor.ByIndices(d, idx(), 0) }},
		{name: "ByIndices(1)", ok: func(s []int) bool { return len(s) >= 2 }, run: func(d *tensor.Dense) (tensor.Tensor, error) { return tensor.ByIndices(d, idx(), 1) }},
		{name: "Norm(2)", ok: func(s []int) bool { return len(s) == 2 }, run: func(d *tensor.Dense) (tensor.Tensor, error) { return d.Norm(tensor.Norm(2)) }},
		{name: "Norm(1,axis0)", ok: func(s []int) bool { return len(s) >= 2 }, run: func(d *tensor.Dense) (tensor.Tensor, error) { return d.Norm(tensor.Norm(1), 0) }},
		{name: "Norm(-1,axes01)", ok: func(s []int) bool { return len(s) == 2 }, run: func(d *tensor.Dense) (tensor.Tensor, error) { return d.Norm(tensor.Norm(-1), 0, 1) }},
		{name: "Norm(1,axes01)", ok: func(s []int) bool { return len(s) == 2 }, run: func(d *tensor.Dense) (tensor.Tensor, error) { return d.Norm(tensor.Norm(1), 0, 1) }},
		{name: "Norm(inf,axis1)", ok: func(s []int) bool { return len(s) >= 2 }, run: func(d *tensor.Dense) (tensor.Tensor, error) { return d.Norm(tensor.InfNorm(), 1) }},
		{name: "Norm(fro)", ok: func(s []int) bool { return len(s) == 2 }, run: func(d *tensor.Dense) (tensor.Tensor, error) { return d.Norm(tensor.FrobeniusNorm()) }},
		{name: "Narrow", ok: func(s []int) bool { return len(s) >= 2 }, run: func(d *tensor.Dense) (tensor.Tensor, error) { return tensor.Narrow(d, 1, 1, 2) }},
		{name: "RepeatReuse(0, dest F)", ok: func(s []int) bool { return len(s) >= 2 }, run: repeatInto(true, 0), ref: repeatInto(false, 0)},
		{name: "RepeatReuse(1, dest F)", ok: func(s []int) bool { return len(s) >= 2 }, run: repeatInto(true, 1), ref: repeatInto(false, 1)},
		{name: "SoftMaxB(0)", ok: func(s []int) bool { return len(s) >= 2 }, run2: func(d, e *tensor.Dense) (tensor.Tensor, error) { return tensor.SoftMaxB(d, e, 0) }},
		{name: "SoftMaxB(last)", ok: func(s []int) bool { return len(s) >= 2 }, run2: func(d, e *tensor.Dense) (tensor.Tensor, error) { return tensor.SoftMaxB(d, e, d.Dims()-1) }},
		{name: "LogSoftMaxB(0)", ok: func(s []int) bool { return len(s) >= 2 }, run2: func(d, e *tensor.Dense) (tensor.Tensor, error) { return tensor.LogSoftMaxB(d, e, 0) }},
		{name: "LogSoftMaxB(last)", ok: func(s []int) bool { return len(s) >= 2 }, run2: func(d, e *tensor.Dense) (tensor.Tensor, error) { return tensor.LogSoftMaxB(d, e, d.Dims()-1) }},
		{name: "ByIndicesB(0)", ok: func(s []int) bool { return len(s) >= 2 }, run2: func(d, e *tensor.Dense) (tensor.Tensor, error) {
			g, err := tensor.ByIndices(e, idx(), 0)
			if err != nil {
				return nil, err
			}
			return tensor.ByIndicesB(d, g, idx(), 0)
		}},
		{name: "Materialize", ok: func(s []int) bool { return true }, run: func(d *tensor.Dense) (tensor.Tensor, error) { return tensor.Materialize(d), nil }},
		{name: "Copy(dest C)", ok: func(s []int) bool { return true }, run: func(d *tensor.Dense) (tensor.Tensor, error) {
			r := tensor.New(tensor.Of(d.Dtype()), tensor.WithShape(d.Shape().Clone()...))
			return r, tensor.Copy(r, d)
		}},
		{name: "Copy(dest F)", ok: func(s []int) bool { return true }, run: func(d *tensor.Dense) (tensor.Tensor, error) {
			r := tensor.New(tensor.Of(d.Dtype()), tensor.WithShape(d.Shape().Clone()...), tensor.AsFortran(nil))
			return r, tensor.Copy(r, d)
		}},
		{name: "Trace", ok: func(s []int) bool { return len(s) == 2 }, run: func(d *tensor.Dense) (tensor.Tensor, error) {
			v, err := d.Trace()
			if err != nil {
				return nil, err
			}
			return tensor.New(tensor.FromScalar(v)), nil
		}},
		{name: "SVD(values)", ok: func(s []int) bool { return len(s) == 2 }, run: func(d *tensor.Dense) (tensor.Tensor, error) {
			sv, _, _, err := d.SVD(false, false)
			return sv, err
		}},
		{name: "Outer(api)", ok: func(s []int) bool { return len(s) == 2 }, run2: func(d, e *tensor.Dense) (tensor.Tensor, error) {
			a, err := d.Slice(tensor.S(0))
			if err != nil {
				return nil, err
			}
			b, err := e.Slice(nil, tensor.S(0))
			if err != nil {
				return nil, err
			}
			return tensor.Outer(a, b)
		}},
		{name: "RepeatReuse(0, dest C)", ok: func(s []int) bool { return len(s) >= 2 }, run: repeatInto(false, 0)},
		{name: "RepeatReuse(1, dest C)", ok: func(s []int) bool { return len(s) >= 2 }, run: repeatInto(false, 1)},
	}
	for _, t := range []reflect.Type{model.TF64, model.TF32} {
		tol := 1e-12
		if t == model.TF32 {
			tol = 1e-5
		}
		for _, shape := range [][]int{{2, 3}, {3, 3}, {3, 2}, {2, 3, 2}} {
			n := model.Size(shape)
			for _, o := range ops {
				if !o.ok(shape) {
					continue
				}
				vals := gen.SmallInts(t, n, c.Rng, -9, 9)
				ref, pr := ewBuild(c, t, shape, gen.LC, vals, nil, nil)
				if pr != "" {
					continue
				}
				var want tensor.Tensor
				var werr error
				vals2 := gen.SmallInts(t, n, c.Rng, 1, 9)
				ref2, pr2 := ewBuild(c, t, shape, gen.LC, vals2, nil, nil)
				if pr2 != "" {
					continue
				}
				call := func(d, e *tensor.Dense) (tensor.Tensor, error) {
					if o.run2 != nil {
						return o.run2(d, e)
					}
					return o.run(d)
				}
				ref.before()
				wp, _ := core.Catch(func() {
					if o.ref != nil {
						want, werr = o.ref(ref.op.D)
					} else {
						want, werr = call(ref.op.D, ref2.op.D)
					}
				})
				ref.observe()
				if !ref.untouched() {
					// (the row-major run is the reference, but an operation that changes its operand is nobody's reference)
					c.Violation(core.Sig("other", o.name, gen.LC, "operand-changed"), fmt.Sprintf("other/%s/%s/%s/%s", o.name, gen.LC, shapeStr(shape), model.Name(t)),
						map[string]interface{}{"operation": o.name, "layout": gen.LC, "shape": shape, "type": model.Name(t), "values": short(vals)}, "operand untouched", fmt.Sprint(ref.changed, ref.metaDif))
					continue
				}
				if wp || werr != nil {
					continue // the operation does not serve this shape at all
				}
				wm, e := gen.ReadAll(want)
				if e != nil {
					continue
				}
				lays := []string{gen.LF, gen.LFconv, gen.LFT, gen.LFS}
				if o.ref != nil {
					lays = append(lays, gen.LC) // a row-major operand into the column-major destination
				}
				for _, lay := range lays {
					x, px := ewBuild(c, t, shape, lay, vals, nil, nil)
					if px != "" || x.op.Layout != lay {
						continue
					}
					y, py := ewBuild(c, t, shape, lay, vals2, nil, nil)
					if py != "" || y.op.Layout != lay {
						continue
					}
					x.before()
					y.before()
					var got tensor.Tensor
					var gerr error
					gp, gmsg := core.Catch(func() { got, gerr = call(x.op.D, y.op.D) })
					x.observe()
					y.observe()
					key := core.Sig("other", o.name, lay, shapeStr(shape), model.Name(t))
					caseKey := fmt.Sprintf("other/%s/%s/%s/%s", o.name, lay, shapeStr(shape), model.Name(t))
					desc := map[string]interface{}{"operation": o.name, "layout": lay, "shape": shape, "type": model.Name(t), "values": short(vals)}
					c.Eval(key, true)
					if c.WantSample("other/" + o.name) {
						c.Sample("other/"+o.name, desc)
					}
					if !x.untouched() || !y.untouched() {
						c.Violation(core.Sig("other", o.name, lay, "operand-changed"), caseKey, desc, "operands untouched", fmt.Sprint(x.changed, x.metaDif, y.changed, y.metaDif))
						continue
					}
					if gp || gerr != nil {
						_ = gmsg
						c.Refused("other:" + o.name + ":" + lay)
						continue
					}
					if e := gen.ReadMatchesBy(got, wm, func(a, b interface{}) bool { return model.RelClose(a, b, tol) }); e != nil {
						c.Violation(core.Sig("other", o.name, lay, "differs-from-row-major"), caseKey, desc, short(wm.V)+" shape "+shapeStr(wm.Shape), e.Error())
					}
				}
			}
		}
	}
	c.Control(true)
}
