package props

import (
	"math"
	"fmt"
	"reflect"
	"sort"

	"gorgonia.org/tensor"
	"verifharness/core"
	"verifharness/gen"
	"verifharness/model"
)

// C08 — reductions fold exactly the elements along the requested axes.

func init() {
	register(&core.Prop{
		ID: "C08",
		Rule: "class matrix: {tensor.Sum, Dense.Sum/Max/Min, tensor.Argmax/Argmin, Dense.Argmax/Argmin, Dense.Reduce(fn)} x the 12 ordered numeric element types x shapes of rank 1-4 (incl. unit axes) x EVERY non-empty subset of axes (given sorted and in reversed order; every single axis and AllAxes for the arg-reductions) x operand layouts {C,T,S,SS,MS} x value classes {distinct small, ties, negatives, overflow-provoking extremes; floats are dyadic so that sums are exact in any association order}. " +
			"Oracle: model fold (integer sums wrap) / first index of the extreme along the axis or of the whole logical array; shape = reduced axes removed, scalar when all reduced; operand bit-identical afterwards; contiguous operands must be served, other layouts are served correctly or refused (error/panic), never folded wrongly. distinct_nontrivial counts distinct (reduction, dtype, shape, axis set, layout, value class) keys on tensors with more than one element.",
		Assume: []string{"value sets avoid NaN (the statement's value sets are ties, negatives and overflow)"},
		Groups: c08Groups,
	})
}

func c08Shapes(tier string) [][]int {
	s := [][]int{{4}, {2, 3}, {3, 1}, {1, 4}, {2, 3, 4}, {3, 1, 2}, {1, 3, 2}, {2, 3, 1}, {2, 3, 2, 2}, {2, 2, 3, 3}}
	if tier == "thorough" {
		s = append(s, []int{1}, []int{5, 4}, []int{3, 3, 3}, []int{1, 1, 3}, []int{4, 2, 1}, []int{2, 3, 4, 5}, []int{3, 2, 1, 2}, []int{1, 2, 3, 1})
	}
	return s
}

func subsets(n int) [][]int {
	var out [][]int
	for m := 1; m < 1<<uint(n); m++ {
		var s []int
		for i := 0; i < n; i++ {
			if m&(1<<uint(i)) != 0 {
				s = append(s, i)
			}
		}
		out = append(out, s)
	}
	return out
}

func c08Groups(tier string) []core.Group {
	var gs []core.Group
	for _, red := range []string{"Sum", "Max", "Min", "Argmax", "Argmin", "Reduce"} {
		for _, t := range model.RealTypes {
			red, t := red, t
			gs = append(gs, core.Group{Key: fmt.Sprintf("%s/%s", red, model.Name(t)), Run: func(c *core.Ctx) { c08Run(c, red, t) }})
		}
	}
	// strings are an ordered element type for the arg-reductions (the library has no string Sum/Max/Min kernels and refuses those)
	for _, red := range []string{"Argmax", "Argmin"} {
		red := red
		gs = append(gs, core.Group{Key: fmt.Sprintf("%s/%s", red, model.Name(model.TStr)), Run: func(c *core.Ctx) { c08Run(c, red, model.TStr) }})
	}
	return gs
}

func axisClass(axes []int, rank int) string {
	switch {
	case len(axes) == rank && rank > 1:
		return "all"
	case len(axes) > 1:
		return "multi"
	case rank == 1:
		return "only"
	case axes[0] == 0:
		return "first"
	case axes[0] == rank-1:
		return "last"
	}
	return "middle"
}

// c08Values: dyadic floats (exact sums), ties, negatives, edges.
func c08Values(c *core.Ctx, t reflect.Type, n int, class string) []interface{} {
	switch class {
	case "ties":
		return gen.SmallInts(t, n, c.Rng, 1, 3)
	case "neg":
		return gen.SmallInts(t, n, c.Rng, -9, 9)
	case "edge":
		if model.IsFloat(t) {
			// large magnitudes whose sums stay exact: powers of two
			out := make([]interface{}, n)
			for i := range out {
				out[i] = model.FromFloat(t, float64(int64(1)<<uint(10+c.Rng.Intn(10)))*float64(1-2*c.Rng.Intn(2)))
			}
			return out
		}
		return gen.FromPool(gen.Pool(t, "edge"), n, c.Rng)
	case "infties":
		// tied infinite extremes, the first one at element 0 in half of the draws
		pool := []float64{math.Inf(1), math.Inf(-1), 1, 2, math.Inf(1), math.Inf(-1)}
		out := make([]interface{}, n)
		for i := range out {
			out[i] = model.FromFloat(t, pool[c.Rng.Intn(len(pool))])
		}
		if n > 0 && c.Rng.Intn(2) == 0 {
			out[0] = model.FromFloat(t, math.Inf(1-2*c.Rng.Intn(2)))
		}
		return out
	case "frac":
		out := make([]interface{}, n)
		for i := range out {
			out[i] = model.FromFloat(t, float64(c.Rng.Intn(64)-20)/4)
		}
		return out
	}
	return gen.Distinct(t, n, c.Rng, 1, 3)
}

func reduceFn(t reflect.Type) interface{} {
	switch t.Kind() {
	case reflect.Int:
		return func(a, b int) int { return a + b }
	case reflect.Int8:
		return func(a, b int8) int8 { return a + b }
	case reflect.Int16:
		return func(a, b int16) int16 { return a + b }
	case reflect.Int32:
		return func(a, b int32) int32 { return a + b }
	case reflect.Int64:
		return func(a, b int64) int64 { return a + b }
	case reflect.Uint:
		return func(a, b uint) uint { return a + b }
	case reflect.Uint8:
		return func(a, b uint8) uint8 { return a + b }
	case reflect.Uint16:
		return func(a, b uint16) uint16 { return a + b }
	case reflect.Uint32:
		return func(a, b uint32) uint32 { return a + b }
	case reflect.Uint64:
		return func(a, b uint64) uint64 { return a + b }
	case reflect.Float32:
		return func(a, b float32) float32 { return a + b }
	case reflect.Float64:
		return func(a, b float64) float64 { return a + b }
	}
	return nil
}

func c08Run(c *core.Ctx, red string, t reflect.Type) {
	classes := []string{"small", "ties", "edge"}
	if t == model.TStr {
		classes = []string{"small", "ties"}
	}
	if model.IsSigned(t) || model.IsFloat(t) {
		classes = append(classes, "neg")
	}
	if model.IsFloat(t) {
		classes = append(classes, "frac")
		if red != "Sum" && red != "Reduce" {
			classes = append(classes, "infties")
		}
	}
	add := func(a, b interface{}) interface{} { r, _ := model.Bin("Add", a, b); return r }
	maxf := func(a, b interface{}) interface{} {
		if model.Less(a, b) {
			return b
		}
		return a
	}
	minf := func(a, b interface{}) interface{} {
		if model.Less(b, a) {
			return b
		}
		return a
	}
	for _, shape := range c08Shapes(c.Tier) {
		rank := len(shape)
		for li, lay := range operandLayouts(c) {
			for ci, class := range classes {
				if c.Tier != "thorough" && (li+ci)%2 == 1 && lay != gen.LC {
					continue
				}
				n := model.Size(shape)
				type call struct {
					api  string
					axes []int
					do   func(d *tensor.Dense, axes []int) (tensor.Tensor, error)
					want func(m *model.ND) *model.ND
				}
				var calls []call
				switch red {
				case "Sum", "Max", "Min":
					f := map[string]func(a, b interface{}) interface{}{"Sum": add, "Max": maxf, "Min": minf}[red]
					for _, ss := range subsets(rank) {
						ss := ss
						rev := append([]int(nil), ss...)
						sort.Sort(sort.Reverse(sort.IntSlice(rev)))
						for vi, ax := range [][]int{ss, rev} {
							if vi == 1 && len(ss) < 2 {
								continue
							}
							ax := ax
							want := func(m *model.ND) *model.ND { return model.Reduce(m, ss, f) }
							switch red {
							case "Sum":
								calls = append(calls, call{"Dense.Sum", ax, func(d *tensor.Dense, a []int) (tensor.Tensor, error) { return d.Sum(a...) }, want})
								calls = append(calls, call{"tensor.Sum", ax, func(d *tensor.Dense, a []int) (tensor.Tensor, error) { return tensor.Sum(d, a...) }, want})
							case "Max":
								calls = append(calls, call{"Dense.Max", ax, func(d *tensor.Dense, a []int) (tensor.Tensor, error) { return d.Max(a...) }, want})
							case "Min":
								calls = append(calls, call{"Dense.Min", ax, func(d *tensor.Dense, a []int) (tensor.Tensor, error) { return d.Min(a...) }, want})
							}
						}
					}
					// no axes at all = everything
					all := make([]int, rank)
					for i := range all {
						all[i] = i
					}
					wantAll := func(m *model.ND) *model.ND { return model.Reduce(m, all, f) }
					switch red {
					case "Sum":
						calls = append(calls, call{"Dense.Sum()", nil, func(d *tensor.Dense, a []int) (tensor.Tensor, error) { return d.Sum() }, wantAll})
					case "Max":
						calls = append(calls, call{"Dense.Max()", nil, func(d *tensor.Dense, a []int) (tensor.Tensor, error) { return d.Max() }, wantAll})
					case "Min":
						calls = append(calls, call{"Dense.Min()", nil, func(d *tensor.Dense, a []int) (tensor.Tensor, error) { return d.Min() }, wantAll})
					}
				case "Argmax", "Argmin":
					better := func(x, best interface{}) bool { return model.Less(best, x) }
					if red == "Argmin" {
						better = func(x, best interface{}) bool { return model.Less(x, best) }
					}
					for ax := 0; ax < rank; ax++ {
						ax := ax
						want := func(m *model.ND) *model.ND { return model.ArgExt(m, ax, better) }
						if red == "Argmax" {
							calls = append(calls, call{"Dense.Argmax", []int{ax}, func(d *tensor.Dense, a []int) (tensor.Tensor, error) { return d.Argmax(a[0]) }, want})
							calls = append(calls, call{"tensor.Argmax", []int{ax}, func(d *tensor.Dense, a []int) (tensor.Tensor, error) { return tensor.Argmax(d, a[0]) }, want})
						} else {
							calls = append(calls, call{"Dense.Argmin", []int{ax}, func(d *tensor.Dense, a []int) (tensor.Tensor, error) { return d.Argmin(a[0]) }, want})
							calls = append(calls, call{"tensor.Argmin", []int{ax}, func(d *tensor.Dense, a []int) (tensor.Tensor, error) { return tensor.Argmin(d, a[0]) }, want})
						}
					}
					wantAll := func(m *model.ND) *model.ND {
						return &model.ND{T: model.TInt, Shape: []int{}, V: []interface{}{model.ArgExtAll(m, better)}}
					}
					if red == "Argmax" {
						calls = append(calls, call{"Dense.Argmax(AllAxes)", []int{tensor.AllAxes}, func(d *tensor.Dense, a []int) (tensor.Tensor, error) { return d.Argmax(tensor.AllAxes) }, wantAll})
					} else {
						calls = append(calls, call{"Dense.Argmin(AllAxes)", []int{tensor.AllAxes}, func(d *tensor.Dense, a []int) (tensor.Tensor, error) { return d.Argmin(tensor.AllAxes) }, wantAll})
					}
				case "Reduce":
					fn := reduceFn(t)
					for ax := 0; ax < rank; ax++ {
						ax := ax
						want := func(m *model.ND) *model.ND { return model.Reduce(m, []int{ax}, add) }
						calls = append(calls, call{"Dense.Reduce", []int{ax}, func(d *tensor.Dense, a []int) (tensor.Tensor, error) {
							return d.Reduce(fn, a[0], model.Zero(t))
						}, want})
					}
				}
				for _, cl := range calls {
					op, err := gen.Build(model.New(t, shape, c08Values(c, t, n, class)), lay, c.Rng)
					if err != nil {
						c.Inconclusive("operand-precondition:" + lay)
						continue
					}
					if op.Layout != lay {
						continue
					}
					if op.Validate() != nil {
						c.Inconclusive("operand-precondition:" + lay)
						continue
					}
					axes := append([]int(nil), cl.axes...)
					key := core.Sig(cl.api, model.Name(t), shapeStr(shape), fmt.Sprint(cl.axes), lay, class)
					caseKey := fmt.Sprintf("%s/%s/%s/%v/%s/%s", cl.api, model.Name(t), shapeStr(shape), cl.axes, lay, class)
					desc := map[string]interface{}{"api": cl.api, "axes": cl.axes, "operand": op.Recipe, "values": short(op.M.V), "class": class}
					snap := op.Snap()
					meta := gen.MetaOf(op.D)
					var res tensor.Tensor
					var rerr error
					p, msg := core.Catch(func() { res, rerr = cl.do(op.D, axes) })
					c.Eval(key, n > 1)
					if c.WantSample(cl.api) {
						c.Sample(cl.api, desc)
					}
					ac := "all"
					if len(cl.axes) > 0 && cl.axes[0] != tensor.AllAxes {
						s := append([]int(nil), cl.axes...)
						sort.Ints(s)
						ac = axisClass(s, rank)
					}
					viol := func(sym string, want, got interface{}) {
						c.Violation(core.Sig(cl.api, dtypeClass(t), ac, lay, fmt.Sprintf("rank%d", rank), sym), caseKey, desc, want, got)
					}
					if ch := op.Changed(snap); len(ch) > 0 || meta.Diff(gen.MetaOf(op.D)) != "" {
						viol("operand-changed", "operand untouched", fmt.Sprint(ch, " ", meta.Diff(gen.MetaOf(op.D))))
						continue
					}
					if p || rerr != nil {
						m := msg
						if rerr != nil {
							m = rerr.Error()
						}
						if lay == gen.LC {
							viol("refused-contiguous", "a result", m)
						} else {
							c.Refused(cl.api + "|" + lay)
						}
						continue
					}
					want := cl.want(op.M)
					rd, ok := res.(*tensor.Dense)
					if !ok || rd == nil {
						viol("not-dense", "*Dense", fmt.Sprintf("%T", res))
						continue
					}
					if e := gen.ReadMatchesBy(rd, want, model.Equal); e != nil {
						viol("wrong-fold", short(want.V)+" shape "+shapeStr(want.Shape), e.Error())
						continue
					}
					if rd == op.D || overlaps(rd, op.Root) {
						if len(want.V) != len(op.M.V) { // a fold that removes nothing may legitimately hand back the operand's storage? no: results are new tensors
							viol("result-aliases-operand", "a new tensor", "shares storage with the operand")
						}
					}
				}
			}
		}
	}
	// negative control: a wrong expectation must be noticed (strings: the positions of the maxima against those of the minima)
	op, err := gen.Build(model.New(t, []int{2, 3}, gen.Distinct(t, 6, c.Rng, 1, 3)), gen.LC, c.Rng)
	if err == nil && t == model.TStr {
		res, e := op.D.Argmax(1)
		if e == nil {
			want := model.ArgExt(op.M, 1, func(x, best interface{}) bool { return model.Less(x, best) }) // positions of the minima
			c.Control(gen.ReadMatchesBy(res, want, model.Equal) != nil)
		} else {
			c.Control(false)
		}
		return
	}
	if err == nil {
		res, e := op.D.Sum(0)
		if e == nil {
			want := model.Reduce(op.M, []int{1}, func(a, b interface{}) interface{} { r, _ := model.Bin("Add", a, b); return r })
			c.Control(gen.ReadMatchesBy(res, want, model.Equal) != nil)
		} else {
			c.Control(false)
		}
	}
}
