package props

import (
	"fmt"
	"math/rand"
	"reflect"
	"sort"
	"strings"

	"gorgonia.org/tensor"
	"verifharness/core"
	"verifharness/gen"
	"verifharness/model"
)

// C02 — slicing selects exactly the requested sub-array.

func init() {
	register(&core.Prop{
		ID: "C02",
		Rule: "sources {C,F,Fconv,T,S,SS,ST,TS} x shapes of rank 1-4 (dims<=5; tier bounds in groups) x per-axis the COMPLETE argument set {nil, every single index, every (start,end,step) with 0<=start<end<=dim+1 and step in {1,2,3,dim,dim+1}, invalid: reversed, negative start, start>=dim, zero step over >1 element, too many slices}; " +
			"full cross product for rank<=2 (and rank 3 with dims<=3 in thorough), each-choice + PRNG-sampled cross product above; slice lists shorter than the rank; Narrow, tensor.Narrow, SliceInto; nested slicing/transposing to depth 3. " +
			"A case is one slice request; oracle = model slice (shape modulo the axes the statement lets the library drop; every element through At and through Materialize), error iff invalid, source bytes and metadata unchanged. distinct_nontrivial counts distinct (source layout, rank, per-axis argument classes) keys with at least one non-nil argument.",
		Assume: []string{"source operands are validated (At sweep + independent offsets) before use; a failed precondition is counted inconclusive, not blamed on C02"},
		Groups: c02Groups,
	})
}

var c02Layouts = []string{gen.LC, gen.LF, gen.LFconv, gen.LT, gen.LS, gen.LSS, gen.LST, gen.LTS}

type axArg struct {
	spec  model.SliceSpec
	valid bool
	class string
}

func specClass(s model.SliceSpec, dim int) string {
	switch {
	case s.Nil:
		return "nil"
	case s.Single:
		return "single"
	case s.Step == 0:
		return "zerostep1"
	}
	end := s.End
	cl := ""
	if end > dim {
		end = dim
		cl = "+clamped"
	}
	span := end - s.Start
	switch {
	case s.Step == 1:
		return "unit" + cl
	case span%s.Step == 0:
		return "step-exact" + cl
	case span < s.Step:
		return "step-gt-span" + cl
	}
	return "step-rem" + cl
}

// axisArgs is the complete per-axis argument set of the property's quantifier.
func axisArgs(dim int) []axArg {
	var out []axArg
	add := func(s model.SliceSpec, cls string) {
		v := model.SliceValid(s, dim)
		if cls == "" {
			cls = specClass(s, dim)
		}
		out = append(out, axArg{s, v, cls})
	}
	add(model.SliceSpec{Nil: true}, "")
	for i := 0; i < dim; i++ {
		add(model.SliceSpec{Single: true, Start: i}, "")
	}
	steps := map[int]bool{1: true, 2: true, 3: true, dim: true, dim + 1: true}
	var sl []int
	for s := range steps {
		if s >= 1 {
			sl = append(sl, s)
		}
	}
	sort.Ints(sl)
	for start := 0; start < dim; start++ {
		for end := start + 1; end <= dim+1; end++ {
			for _, st := range sl {
				add(model.SliceSpec{Start: start, End: end, Step: st}, "")
			}
		}
		add(model.SliceSpec{Start: start, End: start + 1, Step: 0}, "")
	}
	// invalid requests
	add(model.SliceSpec{Single: true, Start: dim}, "inv-single-high")
	add(model.SliceSpec{Single: true, Start: -1}, "inv-single-neg")
	add(model.SliceSpec{Start: dim, End: dim + 1, Step: 1}, "inv-start-past")
	add(model.SliceSpec{Start: -1, End: 1, Step: 1}, "inv-neg-start")
	if dim >= 2 {
		add(model.SliceSpec{Start: 1, End: 0, Step: 1}, "inv-reversed")
		add(model.SliceSpec{Start: 0, End: 2, Step: 0}, "inv-zero-step")
	}
	return out
}

func toSlice(s model.SliceSpec) tensor.Slice {
	switch {
	case s.Nil:
		return nil
	case s.Single:
		return tensor.S(s.Start)
	}
	return tensor.S(s.Start, s.End, s.Step)
}

func c02Shapes(tier string, rank int) [][]int {
	switch rank {
	case 1:
		return [][]int{{1}, {2}, {3}, {4}, {5}}
	case 2:
		if tier == "thorough" {
			return shapesOver(2, []int{1, 2, 3, 4, 5})
		}
		return append(shapesOver(2, []int{1, 2, 3}), []int{4, 5}, []int{5, 2}, []int{1, 5}, []int{5, 1})
	case 3:
		if tier == "thorough" {
			return append(shapesOver(3, []int{1, 2, 3}), []int{4, 5, 2}, []int{5, 3, 4}, []int{2, 5, 5}, []int{5, 1, 4})
		}
		return append(shapesOver(3, []int{1, 2}), []int{3, 2, 3}, []int{2, 3, 4}, []int{5, 3, 2}, []int{3, 1, 3})
	case 4:
		if tier == "thorough" {
			return append(shapesOver(4, []int{1, 2}), []int{3, 2, 3, 2}, []int{2, 3, 4, 5}, []int{5, 2, 1, 3}, []int{3, 3, 3, 3}, []int{1, 4, 1, 3})
		}
		return [][]int{{2, 2, 2, 2}, {3, 2, 1, 3}, {2, 3, 4, 2}, {1, 1, 3, 2}}
	}
	return nil
}

func c02Groups(tier string) []core.Group {
	var gs []core.Group
	for _, lay := range c02Layouts {
		for rank := 1; rank <= 4; rank++ {
			for si, shape := range c02Shapes(tier, rank) {
				lay, shape := lay, shape
				gs = append(gs, core.Group{Key: fmt.Sprintf("slice/%s/r%d#%d%s", lay, rank, si, shapeStr(shape)), Run: func(c *core.Ctx) { c02Shape(c, lay, shape) }})
			}
		}
	}
	for _, lay := range c02Layouts {
		lay := lay
		gs = append(gs, core.Group{Key: "nested/" + lay, Run: func(c *core.Ctx) { c02Nested(c, lay) }})
		gs = append(gs, core.Group{Key: "narrow/" + lay, Run: func(c *core.Ctx) { c02Narrow(c, lay) }})
	}
	return gs
}

func c02Source(c *core.Ctx, lay string, shape []int, t reflect.Type) *gen.Operand {
	m := model.New(t, shape, gen.Ramp(t, model.Size(shape), 1))
	op, err := gen.Build(m, lay, c.Rng)
	if err != nil {
		c.Inconclusive("operand-precondition:" + lay)
		return nil
	}
	if op.Layout != lay {
		return nil // shape does not admit this layout; covered by the C group
	}
	if err := op.Validate(); err != nil {
		c.Inconclusive("operand-precondition:" + lay)
		return nil
	}
	return op
}

func specsStr(specs []model.SliceSpec) string {
	p := make([]string, len(specs))
	for i, s := range specs {
		p[i] = s.String()
	}
	return "[" + strings.Join(p, ", ") + "]"
}

// c02Judge runs one slice request against the tensor d whose logical content is
// m and judges it. It returns the resulting view and its model (shape as the
// library presented it) when the request was valid and correctly served.
func c02Judge(c *core.Ctx, api string, lay string, d *tensor.Dense, m *model.ND, specs []model.SliceSpec, call func() (tensor.View, error), corrupt bool) (*tensor.Dense, *model.ND) {
	rank := len(m.Shape)
	valid := len(specs) <= rank
	classes := make([]string, len(specs))
	nonNil := false
	for i, s := range specs {
		if i < rank {
			if !model.SliceValid(s, m.Shape[i]) {
				valid = false
			}
			classes[i] = specClass(s, m.Shape[i])
			if !s.Nil {
				nonNil = true
			}
			if !model.SliceValid(s, m.Shape[i]) {
				classes[i] = "invalid"
			}
		} else {
			classes[i] = "extra"
		}
	}
	key := core.Sig(api, lay, fmt.Sprint(rank), strings.Join(classes, ","))
	caseKey := fmt.Sprintf("%s/%s/%s%s", api, lay, shapeStr(m.Shape), specsStr(specs))
	desc := map[string]interface{}{"api": api, "source_layout": lay, "source_shape": m.Shape, "slices": specsStr(specs)}
	c.Eval(key, nonNil && len(m.V) > 1)
	if c.WantSample(api + "/" + lay) {
		c.Sample(api+"/"+lay, desc)
	}
	before := gen.MetaOf(d)
	var v tensor.View
	var err error
	p, msg := core.Catch(func() { v, err = call() })
	viol := func(symptom, want, got string) {
		if corrupt {
			return
		}
		c.Violation(core.Sig(api, symptom), caseKey, desc, want, got)
	}
	if p {
		if corrupt {
			return nil, nil
		}
		kind := "valid"
		if !valid {
			kind = "invalid"
		}
		viol("panic|"+kind+"|"+lay, "view or error", "panic: "+msg)
		return nil, nil
	}
	if diff := before.Diff(gen.MetaOf(d)); diff != "" {
		viol("source-metadata-changed|"+lay, "source untouched", diff)
	}
	if !valid {
		if err == nil {
			bad := ""
			for i, cl := range classes {
				if cl == "invalid" || cl == "extra" {
					bad = fmt.Sprintf("%s", invalidKind(specs[i], i, m.Shape))
					break
				}
			}
			viol("no-error|"+bad, "an error", "a view of shape "+fmt.Sprint(v.Shape()))
		}
		return nil, nil
	}
	if err != nil {
		viol("error-on-valid|"+lay+"|"+strings.Join(uniq(classes), ","), "a view", err.Error())
		return nil, nil
	}
	vd, ok := v.(*tensor.Dense)
	if !ok {
		viol("not-dense", "*Dense", fmt.Sprintf("%T", v))
		return nil, nil
	}
	res := model.Slice(m, specs)
	gotShape := model.CopyInts([]int(vd.Shape()))
	if vd.Shape().IsScalar() {
		gotShape = []int{}
	}
	if corrupt {
		// negative control: expect one element more on the first ranged axis; the oracle must object
		bad := model.CopyInts(res.Full.Shape)
		if len(bad) == 0 {
			bad = []int{2}
		} else {
			bad[0]++
		}
		_, ok := model.SqueezeMatch(bad, res.MayDrop, gotShape)
		c.Control(!ok)
		return nil, nil
	}
	keep, ok := model.SqueezeMatch(res.Full.Shape, res.MayDrop, gotShape)
	if !ok {
		// deviation hypothesis: leading-axis length rounded down instead of up (KF-02)
		sym := c02ShapeSymptom(vd, m, specs, res, gotShape)
		viol(sym, fmt.Sprint(res.Full.Shape), fmt.Sprint(gotShape))
		return nil, nil
	}
	// elements through At
	full := make([]int, len(res.Full.Shape))
	var firstBad string
	var rerr error
	model.Each(gotShape, func(gc []int, r int) {
		if firstBad != "" || rerr != nil {
			return
		}
		for i := range full {
			full[i] = 0
		}
		for j, i := range keep {
			full[i] = gc[j]
		}
		want := res.Full.V[model.Rank(res.Full.Shape, full)]
		var got interface{}
		pp, pm := core.Catch(func() { got, rerr = vd.At(gc...) })
		if pp {
			rerr = fmt.Errorf("panic: %s", pm)
			return
		}
		if rerr == nil && !model.Same(got, want) {
			firstBad = fmt.Sprintf("view%v = %v, want %v (source%v)", gc, got, want, res.SrcCoord(full))
		}
	})
	if rerr != nil {
		viol("view-unreadable|"+lay, "readable view", rerr.Error())
		return nil, nil
	}
	if firstBad != "" {
		viol("wrong-element|"+lay+"|"+strings.Join(uniq(classes), ","), "source[start+c*step]", firstBad)
		return nil, nil
	}
	// the model of the view in the shape the library presented
	vm := &model.ND{T: m.T, Shape: gotShape, V: res.Full.V}
	if c02OnView != nil {
		c02OnView(vd, vm, caseKey, desc)
	}
	return vd, vm
}

// c02OnView, when set, is shown every view this check has found right element by element, with its model (C04 takes copies
// of each of them: a view can answer At correctly and still be copied wrongly by a consumer that trusts its flags).
var c02OnView func(vd *tensor.Dense, vm *model.ND, caseKey string, desc map[string]interface{})

func uniq(in []string) []string {
	m := map[string]bool{}
	for _, s := range in {
		m[s] = true
	}
	var out []string
	for s := range m {
		out = append(out, s)
	}
	sort.Strings(out)
	return out
}

func invalidKind(s model.SliceSpec, i int, shape []int) string {
	if i >= len(shape) {
		return "too-many-slices"
	}
	dim := shape[i]
	switch {
	case s.Single && s.Start < 0, !s.Single && s.Start < 0:
		return "negative"
	case s.Start >= dim:
		return "start-past-axis"
	case !s.Single && s.Start > s.End:
		return "reversed"
	case !s.Single && s.Step == 0:
		return "zero-step"
	}
	return "other"
}

// c02ShapeSymptom classifies a shape deviation by testing deviation hypotheses.
func c02ShapeSymptom(vd *tensor.Dense, m *model.ND, specs []model.SliceSpec, res *model.SliceResult, gotShape []int) string {
	// hypothesis: a single-element result is presented as a rank-0 scalar (also dropping unit axes that were not sliced), element right (KF-03)
	if len(gotShape) == 0 && len(res.Full.V) == 1 {
		got, err := vd.At()
		if err == nil && model.Same(got, res.Full.V[0]) {
			return "shape|single-element-as-scalar"
		}
		return "shape|single-element-as-scalar+wrong-element"
	}
	// hypothesis: on axis 0 the length is floor((end-start)/step) (at least 1) instead of ceil, everything else right
	if len(specs) > 0 && !specs[0].Nil && !specs[0].Single && specs[0].Step > 1 {
		end := specs[0].End
		if end > m.Shape[0] {
			end = m.Shape[0]
		}
		fl := (end - specs[0].Start) / specs[0].Step
		if fl < 1 {
			fl = 1
		}
		alt := model.CopyInts(res.Full.Shape)
		if len(alt) > 0 && alt[0] != fl {
			alt[0] = fl
			may := append([]bool(nil), res.MayDrop...)
			if fl == 1 {
				may[0] = true
			}
			if keep, ok := model.SqueezeMatch(alt, may, gotShape); ok {
				// all elements that exist must still be the right ones
				full := make([]int, len(alt))
				good := true
				model.Each(gotShape, func(gc []int, r int) {
					for i := range full {
						full[i] = 0
					}
					for j, i := range keep {
						full[i] = gc[j]
					}
					want := res.Full.V[model.Rank(res.Full.Shape, full)]
					got, err := vd.At(gc...)
					if err != nil || !model.Same(got, want) {
						good = false
					}
				})
				if good {
					return "shape|axis0|" + specClass(specs[0], m.Shape[0]) + "|len=floor"
				}
				return "shape|axis0|" + specClass(specs[0], m.Shape[0]) + "|len=floor+wrong-element"
			}
		}
	}
	// otherwise name the first deviating axis class
	var cls []string
	for i, s := range specs {
		if i < len(m.Shape) {
			cls = append(cls, specClass(s, m.Shape[i]))
		}
	}
	return "shape|other|" + strings.Join(uniq(cls), ",")
}

func c02Shape(c *core.Ctx, lay string, shape []int) {
	rank := len(shape)
	t := model.TInt16
	if c.Rng.Intn(2) == 0 {
		t = model.TF64
	}
	op := c02Source(c, lay, shape, t)
	if op == nil {
		return
	}
	snap := op.Snap()
	args := make([][]axArg, rank)
	for i, d := range shape {
		args[i] = axisArgs(d)
	}
	run := func(specs []model.SliceSpec, corrupt bool) {
		sl := make([]tensor.Slice, len(specs))
		for i, s := range specs {
			sl[i] = toSlice(s)
		}
		c02Judge(c, "Slice", lay, op.D, op.M, specs, func() (tensor.View, error) { return op.D.Slice(sl...) }, corrupt)
	}
	total := 1
	for _, a := range args {
		total *= len(a)
	}
	fullCross := rank <= 2 || (rank == 3 && c.Tier == "thorough" && total <= 120000)
	if fullCross {
		idx := make([]int, rank)
		lens := make([]int, rank)
		for i := range lens {
			lens[i] = len(args[i])
		}
		model.Each(lens, func(ix []int, _ int) {
			copy(idx, ix)
			specs := make([]model.SliceSpec, rank)
			for i := range specs {
				specs[i] = args[i][idx[i]].spec
			}
			run(specs, false)
		})
	} else {
		// each-choice coverage: every argument of every axis at least once, others random
		for ax := 0; ax < rank; ax++ {
			for _, a := range args[ax] {
				specs := make([]model.SliceSpec, rank)
				for i := range specs {
					specs[i] = args[i][c.Rng.Intn(len(args[i]))].spec
					if i != ax && !args[i][0].valid {
						specs[i] = model.SliceSpec{Nil: true}
					}
				}
				specs[ax] = a.spec
				run(specs, false)
			}
		}
		n := 3000
		if c.Tier == "thorough" {
			n = 30000
		}
		for k := 0; k < n; k++ {
			specs := make([]model.SliceSpec, rank)
			for i := range specs {
				specs[i] = randValidBiased(args[i], c.Rng)
			}
			run(specs, false)
		}
	}
	// shorter slice lists (prefixes), and one list that is too long
	for l := 0; l < rank; l++ {
		for k := 0; k < 40; k++ {
			specs := make([]model.SliceSpec, l)
			for i := range specs {
				specs[i] = randValidBiased(args[i], c.Rng)
			}
			run(specs, false)
		}
	}
	long := make([]model.SliceSpec, rank+1)
	for i := range long {
		long[i] = model.SliceSpec{Nil: true}
	}
	long[rank] = model.SliceSpec{Start: 0, End: 1, Step: 1}
	run(long, false)
	// negative controls
	for k := 0; k < 3; k++ {
		specs := make([]model.SliceSpec, rank)
		for i := range specs {
			specs[i] = model.SliceSpec{Nil: true}
		}
		run(specs, true)
	}
	if ch := op.Changed(snap); len(ch) > 0 {
		c.Violation(core.Sig("Slice", "source-bytes-changed", lay), fmt.Sprintf("Slice/%s/%s", lay, shapeStr(shape)), op.Recipe, "slicing never writes", fmt.Sprintf("backing positions %v changed", ch))
	}
}

// randValidBiased picks an argument, mostly valid ones (an invalid one poisons the whole list).
func randValidBiased(a []axArg, rng *rand.Rand) model.SliceSpec {
	for tries := 0; tries < 8; tries++ {
		x := a[rng.Intn(len(a))]
		if x.valid || rng.Intn(40) == 0 {
			return x.spec
		}
	}
	return model.SliceSpec{Nil: true}
}

func c02Narrow(c *core.Ctx, lay string) {
	for rank := 1; rank <= 3; rank++ {
		for _, shape := range c02Shapes("quick", rank) {
			op := c02Source(c, lay, shape, model.TF32)
			if op == nil {
				continue
			}
			for dim := 0; dim < rank; dim++ {
				for start := 0; start < shape[dim]; start++ {
					for length := 1; start+length <= shape[dim]+1; length++ {
						specs := make([]model.SliceSpec, dim+1)
						for i := range specs {
							specs[i] = model.SliceSpec{Nil: true}
						}
						specs[dim] = model.SliceSpec{Start: start, End: start + length, Step: 1}
						dim, start, length := dim, start, length
						c02Judge(c, "Narrow", lay, op.D, op.M, specs, func() (tensor.View, error) { return op.D.Narrow(dim, start, length) }, false)
						c02Judge(c, "tensor.Narrow", lay, op.D, op.M, specs, func() (tensor.View, error) { return tensor.Narrow(op.D, dim, start, length) }, false)
						// SliceInto an existing (recycled) tensor
						sl := make([]tensor.Slice, len(specs))
						for i, s := range specs {
							sl[i] = toSlice(s)
						}
						into := tensor.New(tensor.Of(tensor.Float32), tensor.WithShape(2, 2))
						c02Judge(c, "SliceInto", lay, op.D, op.M, specs, func() (tensor.View, error) { return op.D.SliceInto(into, sl...) }, false)
					}
				}
			}
			ctl := []model.SliceSpec{{Nil: true}}
			c02Judge(c, "Narrow", lay, op.D, op.M, ctl, func() (tensor.View, error) { return op.D.Slice(nil) }, true)
		}
	}
}

// c02Nested: slice of slice of transpose ... to depth 3; the model composes.
func c02Nested(c *core.Ctx, lay string) {
	n := 400
	if c.Tier == "thorough" {
		n = 6000
	}
	shapes := [][]int{{5}, {4, 5}, {5, 3}, {3, 4, 5}, {2, 5, 3}, {3, 2, 4, 3}, {5, 1, 4}}
	for k := 0; k < n; k++ {
		shape := shapes[c.Rng.Intn(len(shapes))]
		op := c02Source(c, lay, shape, model.TInt32)
		if op == nil {
			continue
		}
		d, m := op.D, op.M
		depth := 2 + c.Rng.Intn(2)
		path := lay
		_ = path
		for step := 0; step < depth && d != nil; step++ {
			if len(m.Shape) >= 2 && c.Rng.Intn(3) == 0 && model.Size(m.Shape) > 1 {
				// transpose in between (lazy); shape/element semantics belong to C03, validated here before continuing
				p := c.Rng.Perm(len(m.Shape))
				if model.IsIdentity(p) {
					continue
				}
				var err error
				pp, _ := core.Catch(func() { err = d.T(p...) })
				if pp || err != nil {
					c.Inconclusive("nested-transpose-refused")
					break
				}
				m = model.Permute(m, p)
				if gen.ReadMatches(d, m) != nil {
					c.Inconclusive("operand-precondition:nested-transpose")
					break
				}
				path += ">T"
				continue
			}
			rank := len(m.Shape)
			if rank == 0 {
				break
			}
			specs := make([]model.SliceSpec, 1+c.Rng.Intn(rank))
			for i := range specs {
				a := axisArgs(m.Shape[i])
				for {
					x := a[c.Rng.Intn(len(a))]
					if x.valid {
						specs[i] = x.spec
						break
					}
				}
			}
			sl := make([]tensor.Slice, len(specs))
			for i, s := range specs {
				sl[i] = toSlice(s)
			}
			src := d
			path += ">S"
			d, m = c02Judge(c, "Slice", "nested/"+lay, src, m, specs, func() (tensor.View, error) { return src.Slice(sl...) }, false)
		}
	}
	if op := c02Source(c, gen.LC, []int{3, 4}, model.TInt32); op != nil {
		c02Judge(c, "Slice", "nested/"+lay, op.D, op.M, []model.SliceSpec{{Nil: true}}, func() (tensor.View, error) { return op.D.Slice(nil) }, true)
	}
}
