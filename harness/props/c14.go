package props

import (
	"bytes"
	"encoding/binary"
	"encoding/gob"
	"encoding/json"
	"fmt"
	"math"
	"os"
	"os/exec"
	"path/filepath"
	"reflect"
	"regexp"
	"strconv"
	"strings"

	"gorgonia.org/tensor"
	"verifharness/core"
	"verifharness/gen"
	"verifharness/model"
)

// C14 — serialisation round-trips the logical tensor.
//
// Encoding happens in the batch child; the bytes are written to disk and DECODED IN A FRESH PROCESS
// (worker c14decode), so that an encoding carrying process-local state cannot pass by accident.

func init() {
	register(&core.Prop{
		ID: "C14",
		Rule: "formats {gob (GobEncode and through encoding/gob), npy, CSV, protobuf, flatbuffers} x every element type x shapes of rank 0-4 (scalars, unit axes; CSV rank 2) x layouts {C,F,Fconv,T,S,SS} x masks {none, some, all} (on tensors owning their storage) x value classes {ramp, extremes, NaN/Inf/-0, empty/unicode/comma/quote strings}. " +
			"Each case: encode in this process, write the bytes to disk, decode in a fresh process, compare dtype, shape, every element (bit-exact incl. NaN and -0) and the mask where the format carries one (npy/CSV: masked cells must hold the documented fill value). Outcome must be {round trip equals the logical tensor} or {the encoder returned an error}. npy files are additionally parsed by the harness' own .npy v1 reader and compared with the logical content in row-major order. distinct_nontrivial counts distinct (format, dtype, shape class, layout, mask class, value class) keys.",
		Assume: []string{"gob is decoded into a fresh *Dense through GobDecode; CSV through ReadCSV(As(dtype))"},
		Groups: c14Groups,
	})
}

var c14Formats = []string{"gob", "gobstream", "npy", "csv", "pb", "fb"}
var c14Layouts = []string{gen.LC, gen.LF, gen.LFconv, gen.LT, gen.LS, gen.LSS, gen.LCSS, gen.LST, gen.LTF}

func c14Groups(tier string) []core.Group {
	var gs []core.Group
	for _, f := range c14Formats {
		for _, lay := range c14Layouts {
			f, lay := f, lay
			gs = append(gs, core.Group{Key: fmt.Sprintf("%s/%s", f, lay), Run: func(c *core.Ctx) { c14Run(c, f, lay) }})
		}
	}
	return gs
}

// canon is a process-independent, bit-exact rendering of an element.
func canon(v interface{}) string {
	switch x := v.(type) {
	case float32:
		return "f32:" + strconv.FormatUint(uint64(math.Float32bits(x)), 16)
	case float64:
		return "f64:" + strconv.FormatUint(math.Float64bits(x), 16)
	case complex64:
		return "c64:" + strconv.FormatUint(uint64(math.Float32bits(real(x))), 16) + "," + strconv.FormatUint(uint64(math.Float32bits(imag(x))), 16)
	case complex128:
		return "c128:" + strconv.FormatUint(math.Float64bits(real(x)), 16) + "," + strconv.FormatUint(math.Float64bits(imag(x)), 16)
	case string:
		return "s:" + strconv.Quote(x)
	}
	return fmt.Sprintf("%T:%v", v, v)
}

// canonNaN folds all NaN payloads into one (a NaN must come back as a NaN, not necessarily the same bits).
func canonEq(a, b string) bool {
	if a == b {
		return true
	}
	isNaN := func(s string) bool {
		if strings.HasPrefix(s, "f32:") {
			u, _ := strconv.ParseUint(s[4:], 16, 32)
			f := math.Float32frombits(uint32(u))
			return f != f
		}
		if strings.HasPrefix(s, "f64:") {
			u, _ := strconv.ParseUint(s[4:], 16, 64)
			f := math.Float64frombits(u)
			return f != f
		}
		return false
	}
	return isNaN(a) && isNaN(b)
}

type c14Case struct {
	ID     int    `json:"id"`
	Format string `json:"format"`
	File   string `json:"file"`
	Dtype  string `json:"dtype"`
	// Receiver says what is decoded into: "" a fresh *Dense; "usedF" a column-major tensor of the same element type and
	// another shape that was in use before
	Receiver string `json:"receiver,omitempty"`
	// filled by the decoder
	Err     string   `json:"err,omitempty"`
	GDtype  string   `json:"got_dtype,omitempty"`
	GShape  []int    `json:"got_shape,omitempty"`
	GVals   []string `json:"got_vals,omitempty"`
	GMask   []bool   `json:"got_mask,omitempty"`
	Masked  bool     `json:"got_masked,omitempty"`
	Crashed bool     `json:"crashed,omitempty"`
}

var dtypeByName = func() map[string]reflect.Type {
	m := map[string]reflect.Type{}
	for _, t := range model.AllTypes {
		m[model.Name(t)] = t
	}
	return m
}()

// C14Decode is the fresh-process half: it decodes every file listed in dir/cases.json and appends one JSON line per case to
// dir/results.jsonl. Before each case it records the index in dir/progress, so that a crash while decoding identifies the case;
// the parent restarts the decoder, which marks that case as crashed and continues after it.
func C14Decode(dir string) error {
	b, err := os.ReadFile(filepath.Join(dir, "cases.json"))
	if err != nil {
		return err
	}
	var cases []c14Case
	if err := json.Unmarshal(b, &cases); err != nil {
		return err
	}
	resPath := filepath.Join(dir, "results.jsonl")
	done := 0
	if rb, err := os.ReadFile(resPath); err == nil {
		done = bytes.Count(rb, []byte("\n"))
	}
	out, err := os.OpenFile(resPath, os.O_CREATE|os.O_APPEND|os.O_WRONLY, 0o644)
	if err != nil {
		return err
	}
	defer out.Close()
	emit := func(cs *c14Case) {
		lb, _ := json.Marshal(cs)
		out.Write(append(lb, '\n'))
	}
	if pb, err := os.ReadFile(filepath.Join(dir, "progress")); err == nil {
		n, _ := strconv.Atoi(strings.TrimSpace(string(pb)))
		if n == done && n < len(cases) {
			// the previous decoder died while decoding case n
			cases[n].Crashed = true
			cases[n].Err = "decoder process died while decoding this case"
			emit(&cases[n])
			done++
		}
	}
	for i := done; i < len(cases); i++ {
		os.WriteFile(filepath.Join(dir, "progress"), []byte(strconv.Itoa(i)), 0o644)
		cs := &cases[i]
		data, err := os.ReadFile(filepath.Join(dir, cs.File))
		if err != nil {
			cs.Err = err.Error()
			emit(cs)
			continue
		}
		d := new(tensor.Dense)
		if dt, ok := dtypeByName[cs.Dtype]; ok && cs.Receiver != "" {
			core.Catch(func() {
				switch cs.Receiver {
				case "usedF":
					d = tensor.New(tensor.Of(gen.Dtype(dt)), tensor.WithShape(3, 2), tensor.AsFortran(nil))
				case "usedT":
					d = tensor.New(tensor.Of(gen.Dtype(dt)), tensor.WithShape(3, 2))
					d.T()
				case "usedMasked":
					d = tensor.New(tensor.Of(gen.Dtype(dt)), tensor.WithShape(2, 2))
					d.MaskFromSlice([]bool{true, false, true, true})
				}
			})
		}
		var derr error
		p, msg := core.Catch(func() {
			switch cs.Format {
			case "gob":
				derr = d.GobDecode(data)
			case "gobstream":
				derr = gob.NewDecoder(bytes.NewReader(data)).Decode(d)
			case "npy":
				derr = d.ReadNpy(bytes.NewReader(data))
			case "csv":
				derr = d.ReadCSV(bytes.NewReader(data), tensor.As(gen.Dtype(dtypeByName[cs.Dtype])))
			case "pb":
				derr = d.PBDecode(data)
			case "fb":
				derr = d.FBDecode(data)
			}
			if derr != nil {
				return
			}
			cs.GDtype = model.Name(d.Dtype().Type)
			m, rerr := gen.ReadAll(d)
			if rerr != nil {
				derr = fmt.Errorf("decoded tensor cannot be read: %v", rerr)
				return
			}
			cs.GShape = m.Shape
			for _, v := range m.V {
				cs.GVals = append(cs.GVals, canon(v))
			}
			if cs.Receiver == "usedT" {
				// nothing of the receiver's previous life may be pending on the decoded tensor: undoing "the" transpose is a no-op
				d.UT()
				if m2, e2 := gen.ReadAll(d); e2 != nil || !gen.ShapeEq(m2.Shape, m.Shape) || fmt.Sprint(m2.V) != fmt.Sprint(m.V) {
					derr = fmt.Errorf("a transpose of the receiver's previous life is still pending on the decoded tensor: UT() turns shape %v into %v", m.Shape, d.Shape())
					return
				}
			}
			if d.IsMasked() {
				cs.Masked = true
				model.Each(m.Shape, func(co []int, r int) {
					mv, _ := d.MaskAt(co...)
					cs.GMask = append(cs.GMask, mv)
				})
			}
		})
		if p {
			cs.Err = "panic: " + msg
		} else if derr != nil {
			cs.Err = derr.Error()
		}
		emit(cs)
	}
	os.Remove(filepath.Join(dir, "progress"))
	return nil
}

func c14Shapes(format string, tier string) [][]int {
	if format == "csv" {
		return [][]int{{2, 3}, {3, 1}, {1, 4}, {1, 1}, {4, 2}, {3}}
	}
	s := [][]int{{}, {1}, {4}, {3, 1}, {1, 4}, {2, 3}, {2, 3, 2}, {1, 2, 3}, {2, 2, 2, 3}}
	if tier == "thorough" {
		s = append(s, []int{1, 1}, []int{5, 4}, []int{3, 1, 2}, []int{2, 1, 2, 1})
	}
	return s
}

func c14Values(c *core.Ctx, t reflect.Type, n int, class string) []interface{} {
	switch class {
	case "edge":
		if p := gen.Pool(t, "edge"); p != nil {
			return gen.FromPool(p, n, c.Rng)
		}
	case "nonfin":
		if p := gen.Pool(t, "nonfin"); p != nil {
			return gen.FromPool(p, n, c.Rng)
		}
	case "strings":
		pool := []interface{}{"", "a,b", "ünï€ode ✓", "with \"quote\"", "line\nbreak", " lead", "x"}
		return gen.FromPool(pool, n, c.Rng)
	}
	if model.IsComplex(t) {
		return gen.SmallGauss(t, n, c.Rng, -9, 9)
	}
	return gen.Ramp(t, n, 1)
}

type c14Pending struct {
	cs     c14Case
	want   *model.ND
	mask   []bool // logical mask expected (nil: none)
	fill   interface{}
	desc   map[string]interface{}
	key    string
	encErr string
}

// c14MustEncode: the (format, element type, rank) combinations every contiguous tensor of which has to be encodable.
// CSV: the writer documents matrices only (a 1-D tensor is refused by design) and the reader ints, floats and strings;
// npy has no string type; protobuf/flatbuffers of strings are KF-25 (they encode, wrongly).
func c14MustEncode(format string, t reflect.Type, rank int) bool {
	switch format {
	case "gob", "gobstream":
		return true
	case "npy":
		return model.IsNumber(t) || t.Kind() == reflect.Bool
	case "csv":
		return rank == 2 && (model.IsInt(t) || model.IsFloat(t) || t.Kind() == reflect.String)
	case "pb", "fb":
		return model.IsNumber(t)
	}
	return false
}

func c14Run(c *core.Ctx, format, lay string) {
	dir, err := os.MkdirTemp(c.WorkDir, "verif-c14-") // under /verif/.build/logs/C14 (system temp dir only in replay mode)
	if err != nil {
		c.Inconclusive("tempdir")
		return
	}
	defer os.RemoveAll(dir)
	var pend []*c14Pending
	id := 0
	for _, t := range model.AllTypes {
		if format == "csv" && !(model.IsInt(t) || model.IsFloat(t) || t == model.TStr) {
			continue // ReadCSV documents integer, float and string columns only
		}
		classes := []string{"ramp", "edge"}
		if model.IsFloat(t) || model.IsComplex(t) {
			classes = append(classes, "nonfin")
		}
		if t == model.TStr {
			classes = []string{"ramp", "strings"}
		}
		for _, shape := range c14Shapes(format, c.Tier) {
			for _, class := range classes {
				for _, mk := range []string{"none", "some", "all"} {
					if mk != "none" && !(lay == gen.LC || lay == gen.LF || lay == gen.LT || lay == gen.LS || lay == gen.LSS) {
						continue
					}
					if mk != "none" && (class != "ramp" || len(shape) == 0) {
						continue
					}
					n := model.Size(shape)
					vals := c14Values(c, t, n, class)
					if format == "csv" && t == model.TStr && len(shape) > 0 && shape[len(shape)-1] == 1 {
						// a record holding one empty field is an empty line in CSV, which no reader can tell from "no record":
						// that is the format's limit, not the library's
						for i := range vals {
							if vals[i] == "" {
								vals[i] = "e"
							}
						}
					}
					m := model.New(t, shape, vals)
					op, berr := gen.Build(m, lay, c.Rng)
					if berr != nil {
						c.Inconclusive("operand-precondition:" + lay)
						continue
					}
					if op.Layout != lay {
						continue
					}
					if op.Validate() != nil {
						c.Inconclusive("operand-precondition:" + lay)
						continue
					}
					var lmask []bool
					if mk != "none" {
						lmask = make([]bool, n)
						for i := range lmask {
							lmask[i] = mk == "all" || i%2 == 0
						}
						if op.AttachMask(lmask) != nil {
							continue
						}
					}
					tn := model.Name(t)
					p := &c14Pending{want: op.M, mask: lmask, fill: op.D.FillValue(),
						desc: map[string]interface{}{"format": format, "source": op.Recipe, "mask": mk, "values": class},
						key:  core.Sig(format, tn, shapeClass(shape), lay, mk, class)}
					p.cs = c14Case{ID: id, Format: format, File: fmt.Sprintf("%d.%s", id, format), Dtype: tn}
					if id%2 == 1 {
						// every second case is decoded into a tensor that was something else before: column-major, lazily transposed,
						// or masked, of another shape
						p.cs.Receiver = []string{"usedF", "usedT", "usedMasked"}[(id/2)%3]
						p.desc["receiver"] = map[string]string{"usedF": "a used column-major (3,2) tensor of the same element type",
							"usedT": "a used lazily transposed (3,2) tensor of the same element type", "usedMasked": "a used masked (2,2) tensor of the same element type"}[p.cs.Receiver]
						p.key = core.Sig(p.key, "into-"+p.cs.Receiver)
					}
					snap := op.Snap()
					meta := gen.MetaOf(op.D)
					var data []byte
					var eerr error
					pp, pmsg := core.Catch(func() {
						var buf bytes.Buffer
						switch format {
						case "gob":
							data, eerr = op.D.GobEncode()
						case "gobstream":
							eerr = gob.NewEncoder(&buf).Encode(op.D)
							data = buf.Bytes()
						case "npy":
							eerr = op.D.WriteNpy(&buf)
							data = buf.Bytes()
						case "csv":
							eerr = op.D.WriteCSV(&buf)
							data = buf.Bytes()
						case "pb":
							data, eerr = op.D.PBEncode()
						case "fb":
							data, eerr = op.D.FBEncode()
						}
					})
					caseKey := fmt.Sprintf("%s/%s/%s/%s/%s/%s", format, tn, shapeStr(shape), lay, mk, class)
					if len(op.Changed(snap)) > 0 || meta.Diff(gen.MetaOf(op.D)) != "" {
						c.Violation(core.Sig(format, "encode", lay, "source-changed"), caseKey, p.desc, "source untouched", fmt.Sprint(op.Changed(snap), meta.Diff(gen.MetaOf(op.D))))
						continue
					}
					c.Eval(p.key, true)
					if c.WantSample(format + "/" + lay) {
						c.Sample(format+"/"+lay, p.desc)
					}
					if pp || eerr != nil {
						// "Encoding any tensor ...": a contiguous tensor of an element type and rank the format covers has to be
						// encoded; only a layout the format cannot express may be refused
						if lay == gen.LC && c14MustEncode(format, t, len(shape)) {
							msg := pmsg
							how := "panic"
							if eerr != nil {
								msg, how = eerr.Error(), "error"
							}
							c.Violation(core.Sig(format, "refused-contiguous", how, dtypeClass(t), "mask="+mk, shapeClass(shape)), caseKey, p.desc, "encoded bytes", msg)
							continue
						}
						if pp {
							c.Refused(format + "|panic|" + dtypeClass(t) + "|" + lay)
						} else {
							c.Refused(format + "|" + dtypeClass(t) + "|" + lay)
						}
						continue
					}
					if format == "npy" {
						if sym, detail := c14NpyOracle(data, op.M, lmask, p.fill); sym != "" {
							c.Violation(core.Sig("npy", "format-oracle", dtypeClass(t), lay, mk, sym), caseKey, p.desc, "header and payload describing the logical tensor", detail)
							continue
						}
					}
					if err := os.WriteFile(filepath.Join(dir, p.cs.File), data, 0o644); err != nil {
						c.Inconclusive("write")
						continue
					}
					p.desc["case_key"] = caseKey
					pend = append(pend, p)
					id++
				}
			}
		}
	}
	// decode in a fresh process
	cases := make([]c14Case, len(pend))
	for i, p := range pend {
		p.cs.ID = i
		cases[i] = p.cs
	}
	b, _ := json.Marshal(cases)
	os.WriteFile(filepath.Join(dir, "cases.json"), b, 0o644)
	for attempt := 0; attempt < len(cases)+2; attempt++ {
		cmd := exec.Command(os.Args[0], "c14decode", "-file", dir)
		cmd.Stderr = nil
		cmd.Run()
		if _, err := os.Stat(filepath.Join(dir, "progress")); err != nil {
			break // finished (progress removed)
		}
	}
	rb, err := os.ReadFile(filepath.Join(dir, "results.jsonl"))
	var results []c14Case
	if err == nil {
		for _, line := range bytes.Split(rb, []byte("\n")) {
			if len(line) == 0 {
				continue
			}
			var r c14Case
			if json.Unmarshal(line, &r) == nil {
				results = append(results, r)
			}
		}
	}
	if len(results) != len(pend) {
		c.Inconclusive("decoder-did-not-finish")
		return
	}
	for i, p := range pend {
		r := results[i]
		t := p.want.T
		lay2 := fmt.Sprint(p.desc["source"].(map[string]interface{})["layout"])
		mk := fmt.Sprint(p.desc["mask"])
		caseKey := fmt.Sprint(p.desc["case_key"])
		viol := func(sym string, w, g interface{}) {
			if (format == "pb" || format == "fb") && t == model.TStr {
				// deviation hypothesis (KF): string tensors are written as their raw string headers (process-local pointers);
				// what a fresh process reads back is arbitrary (other strings, empty dtype, a crash)
				c.Violation(core.Sig(format, "roundtrip", "str", "process-local-string-headers"), caseKey, p.desc, w, g)
				return
			}
			if p.cs.Receiver != "" {
				sym += "|into-" + p.cs.Receiver
			}
			c.Violation(core.Sig(format, "roundtrip", dtypeClass(t), lay2, "mask="+mk, shapeClassCoarse(p.want.Shape), sym), caseKey, p.desc, w, g)
		}
		c.Eval(p.key+"|decode", true)
		if r.Err != "" {
			sym := "cannot-be-read-back"
			if r.Crashed {
				sym = "decoder-crashes"
			}
			viol(sym, "a tensor", r.Err)
			continue
		}
		wantShape := p.want.Shape
		if format == "csv" {
			// CSV is read back as a matrix of rows x cols
			if len(wantShape) == 1 {
				wantShape = []int{1, wantShape[0]}
			}
		}
		if r.GDtype != model.Name(t) {
			if format == "npy" && (t == model.TInt64 && r.GDtype == "I" || t == model.TUint64 && r.GDtype == "U") {
				// deviation hypothesis (KF): the npy dtypes i8/u8 are read back as Go int/uint; everything else must still be right
				ok := gen.ShapeEq(r.GShape, p.want.Shape) || (len(r.GShape) == 0 && len(p.want.Shape) == 0)
				for k, v := range p.want.V {
					if p.mask != nil && p.mask[k] {
						v = p.fill
					}
					w := fmt.Sprint(model.ToFloat(v))
					if k >= len(r.GVals) || !strings.HasSuffix(r.GVals[k], ":"+strings.TrimSuffix(w, ".0")) && !strings.HasSuffix(r.GVals[k], ":"+fmt.Sprint(v)) {
						ok = false
					}
				}
				if ok {
					c.Violation(core.Sig("npy", "roundtrip", "dtype-differs", model.Name(t)+"->"+r.GDtype), caseKey, p.desc, model.Name(t), r.GDtype)
					continue
				}
			}
			viol("dtype-differs", model.Name(t), r.GDtype)
			continue
		}
		gs := r.GShape
		if gs == nil {
			gs = []int{}
		}
		if !gen.ShapeEq(gs, wantShape) {
			viol("shape-differs", fmt.Sprint(wantShape), fmt.Sprint(gs))
			continue
		}
		carriesMask := format == "gob" || format == "gobstream"
		bad := ""
		for k, v := range p.want.V {
			w := canon(v)
			if p.mask != nil && p.mask[k] && !carriesMask && (format == "npy" || format == "csv") {
				w = canon(p.fill)
			}
			if p.mask != nil && p.mask[k] && !carriesMask && (format == "pb" || format == "fb") {
				continue // the format carries no mask: the value under a masked cell is not specified
			}
			if k >= len(r.GVals) || !canonEq(r.GVals[k], w) {
				g := "<missing>"
				if k < len(r.GVals) {
					g = r.GVals[k]
				}
				bad = fmt.Sprintf("element %v is %s, want %s (%v)", model.Unrank(p.want.Shape, k), g, w, v)
				break
			}
		}
		if bad != "" {
			viol("elements-differ", short(p.want.V), bad)
			continue
		}
		if r.Masked && !(carriesMask && p.mask != nil) {
			viol("mask-out-of-nowhere", "an unmasked tensor (the bytes carry no mask)", fmt.Sprint(r.GMask))
			continue
		}
		if carriesMask && p.mask != nil {
			if !r.Masked || len(r.GMask) != len(p.mask) {
				viol("mask-lost", "mask carried", fmt.Sprint(r.Masked, len(r.GMask)))
				continue
			}
			for k := range p.mask {
				if r.GMask[k] != p.mask[k] {
					viol("mask-differs", fmt.Sprint(p.mask), fmt.Sprint(r.GMask))
					break
				}
			}
		}
	}
	if format == "npy" && c.Tier == "thorough" {
		c14NumPy(c, dir, pend)
	}
	// negative control: the comparison must notice a changed element
	c.Control(!canonEq(canon(float64(1)), canon(math.Copysign(0, -1))) && !canonEq(canon(float32(0)), canon(float32(math.Copysign(0, -1)))) && canonEq(canon(math.NaN()), canon(math.Float64frombits(0x7ff8000000000001))))
}

func shapeClassCoarse(s []int) string {
	switch {
	case len(s) == 0:
		return "scalar"
	case model.Size(s) == 1:
		return "scalarlike"
	case len(s) == 1:
		return "vector"
	case len(s) == 2 && (s[0] == 1 || s[1] == 1):
		return "vec2d"
	}
	return fmt.Sprintf("rank%d", len(s))
}

var npyHeaderRE = regexp.MustCompile(`^\{'descr': '([<|>=]?)([a-z])(\d+)', 'fortran_order': (False|True), 'shape': \(([0-9, ]*)\),? *\}`)

// c14NpyOracle is an independent .npy v1.0 reader: header and payload must describe the logical tensor in row-major order.
func c14NpyOracle(data []byte, m *model.ND, mask []bool, fill interface{}) (string, string) {
	if len(data) < 10 || string(data[:6]) != "\x93NUMPY" {
		return "bad-magic", ""
	}
	if data[6] != 1 || data[7] != 0 {
		return "bad-version", fmt.Sprint(data[6:8])
	}
	hl := int(binary.LittleEndian.Uint16(data[8:10]))
	if len(data) < 10+hl {
		return "truncated-header", ""
	}
	header := string(data[10 : 10+hl])
	if (10+hl)%16 != 0 {
		return "header-not-aligned", fmt.Sprint(10 + hl)
	}
	mm := npyHeaderRE.FindStringSubmatch(header)
	if mm == nil {
		return "header-unparseable", header
	}
	if mm[4] != "False" {
		return "fortran-order", header
	}
	var shape []int
	for _, s := range strings.Split(mm[5], ",") {
		s = strings.TrimSpace(s)
		if s == "" {
			continue
		}
		n, _ := strconv.Atoi(s)
		shape = append(shape, n)
	}
	if shape == nil {
		shape = []int{}
	}
	if !gen.ShapeEq(shape, m.Shape) {
		return "header-shape", fmt.Sprintf("header %v logical %v", shape, m.Shape)
	}
	kind := map[reflect.Kind]string{reflect.Bool: "b1", reflect.Int8: "i1", reflect.Int16: "i2", reflect.Int32: "i4", reflect.Int64: "i8", reflect.Int: "i8",
		reflect.Uint8: "u1", reflect.Uint16: "u2", reflect.Uint32: "u4", reflect.Uint64: "u8", reflect.Uint: "u8", reflect.Float32: "f4", reflect.Float64: "f8",
		reflect.Complex64: "c8", reflect.Complex128: "c16"}[m.T.Kind()]
	if mm[2]+mm[3] != kind {
		return "header-dtype", mm[2] + mm[3] + " for " + model.Name(m.T)
	}
	payload := data[10+hl:]
	es := int(m.T.Size())
	if len(payload) != es*len(m.V) {
		return "payload-length", fmt.Sprintf("%d bytes for %d elements of %d bytes", len(payload), len(m.V), es)
	}
	for k, v := range m.V {
		want := v
		if mask != nil && mask[k] {
			want = fill
		}
		var wb bytes.Buffer
		if err := binary.Write(&wb, binary.LittleEndian, fixedSize(want)); err != nil {
			return "", ""
		}
		if !bytes.Equal(wb.Bytes(), payload[k*es:(k+1)*es]) {
			// NaN payload bits may differ legitimately? no: a copy keeps the bits
			return "payload-element", fmt.Sprintf("element %v: bytes %x, want %x (%v)", model.Unrank(m.Shape, k), payload[k*es:(k+1)*es], wb.Bytes(), want)
		}
	}
	return "", ""
}

func fixedSize(v interface{}) interface{} {
	switch x := v.(type) {
	case int:
		return int64(x)
	case uint:
		return uint64(x)
	}
	return v
}

const c14PyScript = `
import sys, json, os
import numpy as np
d = sys.argv[1]
out = []
for c in json.load(open(os.path.join(d, "cases.json"))):
    r = {"id": c["id"]}
    try:
        a = np.load(os.path.join(d, c["file"]), allow_pickle=False)
        r["dtype"] = a.dtype.str
        r["shape"] = list(a.shape)
        flat = a.reshape(-1) if a.shape != () else a.reshape(1)
        k = a.dtype.kind
        if k == "f":
            r["vals"] = [float(x).hex() for x in flat]
        elif k == "c":
            r["vals"] = [float(x.real).hex() + "," + float(x.imag).hex() for x in flat]
        elif k == "b":
            r["vals"] = [bool(x) for x in flat]
        else:
            r["vals"] = [str(int(x)) for x in flat]
    except Exception as e:
        r["err"] = repr(e)
    out.append(r)
json.dump(out, open(os.path.join(d, "numpy.json"), "w"))
`

// c14NumPy loads every written .npy file with real NumPy (thorough tier, when the interpreter exists) and compares
// dtype, shape and elements with the logical tensor.
func c14NumPy(c *core.Ctx, dir string, pend []*c14Pending) {
	py, err := exec.LookPath("python3-vt")
	if err != nil {
		c.Tally("numpy-skipped:no-interpreter")
		return
	}
	script := filepath.Join(dir, "load.py")
	os.WriteFile(script, []byte(c14PyScript), 0o644)
	if out, err := exec.Command(py, script, dir).CombinedOutput(); err != nil {
		c.Tally("numpy-skipped:script-failed")
		_ = out
		return
	}
	b, err := os.ReadFile(filepath.Join(dir, "numpy.json"))
	if err != nil {
		c.Tally("numpy-skipped:no-output")
		return
	}
	var res []struct {
		ID    int           `json:"id"`
		Dtype string        `json:"dtype"`
		Shape []int         `json:"shape"`
		Vals  []interface{} `json:"vals"`
		Err   string        `json:"err"`
	}
	if json.Unmarshal(b, &res) != nil || len(res) != len(pend) {
		c.Tally("numpy-skipped:bad-output")
		return
	}
	kind := map[reflect.Kind]string{reflect.Bool: "|b1", reflect.Int8: "|i1", reflect.Int16: "<i2", reflect.Int32: "<i4", reflect.Int64: "<i8", reflect.Int: "<i8",
		reflect.Uint8: "|u1", reflect.Uint16: "<u2", reflect.Uint32: "<u4", reflect.Uint64: "<u8", reflect.Uint: "<u8", reflect.Float32: "<f4", reflect.Float64: "<f8",
		reflect.Complex64: "<c8", reflect.Complex128: "<c16"}
	for i, p := range pend {
		r := res[i]
		t := p.want.T
		caseKey := fmt.Sprint(p.desc["case_key"])
		c.Eval(p.key+"|numpy", true)
		c.Tally("numpy-loaded")
		viol := func(sym string, w, g interface{}) {
			c.Violation(core.Sig("npy", "numpy-load", dtypeClass(t), sym), caseKey, p.desc, w, g)
		}
		if r.Err != "" {
			viol("numpy-cannot-load", "an array", r.Err)
			continue
		}
		if r.Dtype != kind[t.Kind()] {
			viol("numpy-dtype", kind[t.Kind()], r.Dtype)
			continue
		}
		if !gen.ShapeEq(r.Shape, p.want.Shape) && !(len(r.Shape) == 0 && len(p.want.Shape) == 0) {
			viol("numpy-shape", fmt.Sprint(p.want.Shape), fmt.Sprint(r.Shape))
			continue
		}
		for k, v := range p.want.V {
			if p.mask != nil && p.mask[k] {
				v = p.fill
			}
			if k >= len(r.Vals) {
				viol("numpy-elements", short(p.want.V), "too few elements")
				break
			}
			ok := false
			switch {
			case model.IsFloat(t):
				f, _ := strconv.ParseFloat(fmt.Sprint(r.Vals[k]), 64)
				ok = model.Same(model.ToFloat(v), f) || (f != f && model.ToFloat(v) != model.ToFloat(v))
			case model.IsComplex(t):
				parts := strings.Split(fmt.Sprint(r.Vals[k]), ",")
				re, _ := strconv.ParseFloat(parts[0], 64)
				im, _ := strconv.ParseFloat(parts[1], 64)
				z := model.ToComplex(v)
				ok = (real(z) == re || (re != re && real(z) != real(z))) && (imag(z) == im || (im != im && imag(z) != imag(z)))
			case t.Kind() == reflect.Bool:
				ok = fmt.Sprint(r.Vals[k]) == fmt.Sprint(v)
			default:
				ok = fmt.Sprint(r.Vals[k]) == fmt.Sprint(v)
			}
			if !ok {
				viol("numpy-elements", fmt.Sprint(v), fmt.Sprint(r.Vals[k]))
				break
			}
		}
	}
}
