package props

import (
	"fmt"
	"math/rand"
	"os"
	"runtime"
	"runtime/debug"
	"strconv"
	"strings"

	"gorgonia.org/tensor"

	"verifharness/core"
	"verifharness/gen"
	"verifharness/model"
)

// C19 — no operation history corrupts another live tensor or the caller's slices.
//
// Seeded operation programs over a population of live tensors. After EVERY step every live tensor that the step did not
// name as destination is compared with the snapshot taken before the step (elements read through At, shape, strides,
// data order, mask, pending-transpose bookkeeping); tensors that share storage with the destination may change in their
// elements only. Every slice handed to the library (axes, shapes, repeat counts, coordinates, slice lists, masks) is
// owned by the harness with hidden spare capacity and is compared - whole underlying array - after the call and after
// every later step (a retained slice that is recycled later shows up then).
//
// The pools are made deterministic: one P, collector off during a program, pools emptied before each program.

func init() {
	register(&core.Prop{
		ID: "C19",
		Rule: "seeded random and feature-guided operation programs of length 5-200 over a population of 2-8 live tensors (float64, int, string; contiguous, column-major, views): construction, Slice, ShallowClone, T/UT/Transpose/SafeT/RollAxis, Reshape, Clone/Materialize, elementwise arithmetic/comparison/unary in safe/unsafe/reuse/incr modes with tensors and scalars, Apply, Sum/Max/Argmax with caller-owned axes, MatMul/MatVecMul/Outer/TensorMul with caller-owned axes, Repeat with caller-owned counts, Concat/Stack, masking predicates, MaskFromSlice with a caller-owned mask, SetAt/At with caller-owned coordinates, Memset/Zero, ReturnTensor of finished tensors (plain tensors, views, parents of live views, masked tensors), UsePool/DontUsePool toggles, BorrowInts/ReturnInts by the application, garbage collections with allocation churn, bursts of constructions that drain the pools. " +
			"Oracle: after every step, every live tensor not named as destination equals its snapshot from before the step (elements, shape, strides, order, mask, bookkeeping); tensors sharing storage with the destination may differ in elements only; every caller-owned slice ever passed (including its hidden capacity) equals its copy after the call and after every later step; slices borrowed by the application stay as written until returned. distinct_nontrivial counts distinct (operation, population shape signature) classes. Guided programs (guided#* groups): a per-batch corpus keeps each program that exercised a feature (operation+mode x state classes of destination and first operand x outcome, or a pair of consecutive operations) no earlier program of the batch had; three new programs in four replay a corpus program up to a random step and continue on another PRNG stream.",
		Assume: []string{"a tensor handed to ReturnTensor is finished: the program never touches it again (its views and unrelated tensors stay live and are monitored)"},
		Flavours: func(tier string) []string {
			if tier == "thorough" {
				return []string{"plain", "race"}
			}
			return []string{"plain"}
		},
		Groups: c19Groups,
	})
}

func c19Groups(tier string) []core.Group {
	n, per := 128, 64
	if tier == "thorough" {
		n, per = 256, 240
	}
	var gs []core.Group
	for i := 0; i < n; i++ {
		i := i
		gs = append(gs, core.Group{Key: fmt.Sprintf("programs#%d", i), Run: func(c *core.Ctx) { c19Batch(c, i, per) }})
	}
	gn, giter := 32, 64
	if tier == "thorough" {
		gn, giter = 64, 400
	}
	for i := 0; i < gn; i++ {
		i := i
		gs = append(gs, core.Group{Key: fmt.Sprintf("guided#%d", i), Run: func(c *core.Ctx) { c19Guided(c, i, giter) }})
	}
	return gs
}

type c19T struct {
	id    int
	d     *tensor.Dense
	group int // tensors sharing storage
	kind  string
	nd    *model.ND
	meta  gen.Meta
	rerr  string
	born  string
	taint string // "kf03": created through a stepped slice of the leading axis whose extent the library rounds down (KF-03)
	lo    uintptr
	hi    uintptr
}

type c19Slice struct {
	what string
	full []int
	want []int
}

type c19Bools struct {
	what string
	full []bool
	want []bool
}

type c19State struct {
	c      *core.Ctx
	rng    *rand.Rand
	live   []*c19T
	ints   []*c19Slice
	bools  []*c19Bools
	app    []*c19Slice // slices the application borrowed from the pool and still holds
	hist   []string
	nextID int
	nextG  int
	pool   bool
	failed bool
	debug  bool
	// afterGC is called after a step that ran the collector: addresses may be reused from then on, so the pool trace starts afresh
	afterGC func()
	// guided generation: the features (operation, option mode, state classes of destination and operands, outcome; and
	// consecutive operation pairs) this program exercised, and the steps at which the PRNG is exchanged (a program of the
	// corpus is replayed up to such a step and continued differently)
	feats  map[string]struct{}
	prevOp string
	reseed map[int]int64
}

// c19Class names the state class of a live tensor, for the feature keys of guided generation.
func c19Class(t *c19T) string {
	if t == nil || t.d == nil {
		return "-"
	}
	cl := t.kind
	var p bool
	p, _ = core.Catch(func() {
		if t.d.IsView() {
			cl += "v"
		}
		if t.d.IsMasked() {
			cl += "m"
		}
		if t.d.DataOrder().IsColMajor() {
			cl += "f"
		}
		if !t.d.DataOrder().IsContiguous() {
			cl += "n"
		}
		if t.d.RequiresIterator() {
			cl += "i"
		}
	})
	if p {
		cl += "?"
	}
	if t.taint != "" {
		cl += "k"
	}
	return cl
}

var c19Shapes = [][]int{{6}, {2, 3}, {3, 2}, {3, 4}, {4, 3}, {2, 2, 3}, {2, 3, 2}, {4}, {1, 4}, {3, 1}, {2, 2, 2, 2}, {1, 1, 1}, {1, 2}, {1}}

func (s *c19State) ownedInts(what string, vals ...int) []int {
	full := make([]int, len(vals)+3)
	copy(full, vals)
	for i := len(vals); i < len(full); i++ {
		full[i] = 7770 + i
	}
	sl := &c19Slice{what: what, full: full, want: append([]int(nil), full...)}
	s.ints = append(s.ints, sl)
	if len(s.ints) > 40 {
		s.ints = s.ints[1:]
	}
	return full[:len(vals)]
}

func (s *c19State) snapshot(t *c19T) {
	t.nd, t.rerr = nil, ""
	nd, err := gen.ReadAll(t.d)
	if err != nil {
		t.rerr = err.Error()
	}
	t.nd = nd
	p, msg := core.Catch(func() { t.meta = gen.MetaOf(t.d) })
	if p {
		t.rerr += " meta: " + msg
	}
	core.Catch(func() { t.lo, t.hi = t.d.Uintptr(), t.d.Uintptr()+t.d.MemSize() })
}

func (s *c19State) add(d *tensor.Dense, group int, kind string) *c19T {
	if d == nil {
		return nil
	}
	if group < 0 {
		s.nextG++
		group = s.nextG
	}
	s.nextID++
	t := &c19T{id: s.nextID, d: d, group: group, kind: kind}
	if len(s.hist) > 0 {
		t.born = fmt.Sprintf("step%d", len(s.hist)-1)
	}
	s.snapshot(t)
	s.live = append(s.live, t)
	return t
}

func (s *c19State) remove(t *c19T) {
	for i, x := range s.live {
		if x == t {
			s.live = append(s.live[:i], s.live[i+1:]...)
			return
		}
	}
}

func (s *c19State) pick(pred func(t *c19T) bool) *c19T {
	var cand []*c19T
	for _, t := range s.live {
		if pred == nil || pred(t) {
			cand = append(cand, t)
		}
	}
	if len(cand) == 0 {
		return nil
	}
	return cand[s.rng.Intn(len(cand))]
}

func isF64(t *c19T) bool { return t.kind == "f64" }
func hasAxes(t *c19T) bool {
	if t.d.Dims() < 1 {
		return false
	}
	for _, d := range t.d.Shape() {
		if d < 1 {
			return false
		}
	}
	return true
}
func shp19(t *c19T) []int {
	return model.CopyInts([]int(t.d.Shape()))
}

func (s *c19State) newTensor(kind string, shape []int, colMajor bool) *tensor.Dense {
	n := model.Size(shape)
	base := s.rng.Intn(50)
	var opts []tensor.ConsOpt
	opts = append(opts, tensor.WithShape(s.ownedInts("WithShape", shape...)...))
	switch kind {
	case "f64":
		b := make([]float64, n)
		for i := range b {
			b[i] = float64(base + i + 1)
		}
		if colMajor && len(shape) > 1 {
			opts = append(opts, tensor.AsFortran(b))
		} else {
			opts = append(opts, tensor.WithBacking(b))
		}
	case "int":
		b := make([]int, n)
		for i := range b {
			b[i] = base + i + 1
		}
		opts = append(opts, tensor.WithBacking(b))
	case "str":
		// library-allocated storage, strings that only the tensor refers to
		d := tensor.New(tensor.Of(tensor.String), tensor.WithShape(s.ownedInts("WithShape", shape...)...))
		model.Each(shape, func(co []int, r int) { d.SetAt("s"+strconv.Itoa(base*100+r), co...) })
		return d
	}
	return tensor.New(opts...)
}

type c19Act struct {
	name    string
	dest    *c19T   // tensor named as destination (nil: none)
	created []*c19T // filled by run
	run     func() error
	drop    []*c19T // leave the population after the step (finished / returned)
	note    string
	operand []*c19T
}

func (s *c19State) randSlices(shape []int) ([]tensor.Slice, bool) {
	var out []tensor.Slice
	nontrivial := false
	for _, d := range shape {
		switch s.rng.Intn(4) {
		case 0:
			out = append(out, nil)
		case 1:
			if d >= 2 {
				a := s.rng.Intn(d - 1)
				b := a + 1 + s.rng.Intn(d-a-1) + 1
				if b > d {
					b = d
				}
				if b-a < 1 {
					b = a + 1
				}
				out = append(out, tensor.S(a, b))
				nontrivial = true
			} else {
				out = append(out, nil)
			}
		case 2:
			if d >= 3 {
				out = append(out, tensor.S(0, d, 2))
				nontrivial = true
			} else {
				out = append(out, nil)
			}
		default:
			out = append(out, tensor.S(s.rng.Intn(d)))
			nontrivial = true
		}
	}
	return out, nontrivial
}

// next chooses the next action. nil: nothing applicable this time.
func (s *c19State) next() *c19Act {
	rng := s.rng
	if len(s.live) < 2 {
		return s.actConstruct()
	}
	switch k := rng.Intn(40); k {
	case 0, 1, 2:
		if len(s.live) >= 8 {
			return s.actReturn()
		}
		return s.actConstruct()
	case 3, 4:
		x := s.pick(hasAxes)
		if x == nil {
			return nil
		}
		sl, _ := s.randSlices(shp19(x))
		a := &c19Act{name: "Slice", operand: []*c19T{x}, note: fmtSlices(sl)}
		kf03 := len(sl) > 0 && sl[0] != nil && sl[0].Step() > 1 && (sl[0].End()-sl[0].Start())%sl[0].Step() != 0
		a.run = func() error {
			v, err := x.d.Slice(sl...)
			if err == nil {
				if vd, ok := v.(*tensor.Dense); ok && len(s.live) < 8 {
					nt := s.add(vd, x.group, x.kind)
					if kf03 {
						nt.taint = "kf03"
					}
					a.created = append(a.created, nt)
				}
			}
			return err
		}
		return a
	case 5:
		x := s.pick(nil)
		a := &c19Act{name: "ShallowClone", operand: []*c19T{x}}
		a.run = func() error {
			if len(s.live) < 8 {
				a.created = append(a.created, s.add(x.d.ShallowClone(), x.group, x.kind))
			}
			return nil
		}
		return a
	case 6, 7:
		x := s.pick(func(t *c19T) bool { return t.d.Dims() >= 2 })
		if x == nil {
			return nil
		}
		axes := s.ownedInts("T-axes", rng.Perm(x.d.Dims())...)
		name := []string{"T(axes)", "T()", "UT"}[rng.Intn(3)]
		return &c19Act{name: name, dest: x, run: func() error {
			switch name {
			case "T(axes)":
				return x.d.T(axes...)
			case "T()":
				return x.d.T()
			}
			x.d.UT()
			return nil
		}}
	case 8:
		x := s.pick(func(t *c19T) bool { return t.d.Dims() >= 2 })
		if x == nil {
			return nil
		}
		return &c19Act{name: "Transpose", dest: x, run: func() error { return x.d.Transpose() }}
	case 9:
		x := s.pick(func(t *c19T) bool { return t.d.Dims() >= 2 })
		if x == nil {
			return nil
		}
		axes := s.ownedInts("SafeT-axes", rng.Perm(x.d.Dims())...)
		a := &c19Act{name: "SafeT", operand: []*c19T{x}}
		a.run = func() error {
			r, err := x.d.SafeT(axes...)
			if err == nil && len(s.live) < 8 {
				a.created = append(a.created, s.add(r, -1, x.kind))
			}
			return err
		}
		return a
	case 10:
		x := s.pick(func(t *c19T) bool { return t.d.Dims() >= 2 })
		if x == nil {
			return nil
		}
		ax, to, safe := rng.Intn(x.d.Dims()), rng.Intn(x.d.Dims()), rng.Intn(2) == 0
		a := &c19Act{name: "RollAxis", operand: []*c19T{x}}
		if !safe {
			a.dest = x
		}
		a.run = func() error {
			r, err := x.d.RollAxis(ax, to, safe)
			if err == nil && safe && r != x.d && len(s.live) < 8 {
				a.created = append(a.created, s.add(r, -1, x.kind))
			}
			return err
		}
		return a
	case 11:
		x := s.pick(nil)
		n := x.d.Size()
		var dims []int
		for _, sh := range c19Shapes {
			if model.Size(sh) == n && rng.Intn(2) == 0 {
				dims = sh
			}
		}
		if dims == nil {
			dims = []int{n}
		}
		od := s.ownedInts("Reshape-dims", dims...)
		return &c19Act{name: "Reshape", dest: x, run: func() error { return x.d.Reshape(od...) }}
	case 12:
		x := s.pick(nil)
		name := []string{"Clone", "Materialize"}[rng.Intn(2)]
		a := &c19Act{name: name, operand: []*c19T{x}}
		a.run = func() error {
			var r *tensor.Dense
			if name == "Clone" {
				r = x.d.Clone().(*tensor.Dense)
			} else {
				r, _ = x.d.Materialize().(*tensor.Dense)
			}
			if r != nil && r != x.d && len(s.live) < 8 {
				a.created = append(a.created, s.add(r, -1, x.kind))
			}
			return nil
		}
		return a
	case 13, 14, 15, 16, 17:
		return s.actElementwise()
	case 18, 19:
		x := s.pick(func(t *c19T) bool { return t.kind != "str" && hasAxes(t) })
		if x == nil {
			return nil
		}
		nax := 1 + rng.Intn(x.d.Dims())
		axes := s.ownedInts("reduce-axes", rng.Perm(x.d.Dims())[:nax]...)
		name := []string{"Sum", "Max", "Argmax", "Norm"}[rng.Intn(4)]
		if name == "Norm" && x.kind != "f64" {
			name = "Sum"
		}
		ord := []tensor.NormOrder{tensor.Norm(2), tensor.Norm(1), tensor.FrobeniusNorm(), tensor.UnorderedNorm(), tensor.InfNorm(), tensor.Norm(-1)}[rng.Intn(6)]
		whole := rng.Intn(2) == 0
		a := &c19Act{name: name, operand: []*c19T{x}}
		a.run = func() error {
			var r tensor.Tensor
			var err error
			switch name {
			case "Norm":
				// a norm of the whole tensor, or along the (caller-owned) axes
				if whole || len(axes) > 2 {
					r, err = x.d.Norm(ord)
				} else {
					r, err = x.d.Norm(ord, axes...)
				}
				if rd, ok := r.(*tensor.Dense); ok && rd == nil {
					r = nil
				}
			case "Sum":
				r, err = x.d.Sum(axes...)
			case "Max":
				r, err = x.d.Max(axes...)
			default:
				r, err = x.d.Argmax(axes[0])
			}
			if rd, ok := r.(*tensor.Dense); ok && err == nil && len(s.live) < 8 && rng.Intn(2) == 0 {
				a.created = append(a.created, s.add(rd, -1, "res"))
			}
			return err
		}
		return a
	case 20, 21:
		return s.actProduct()
	case 22:
		x := s.pick(hasAxes)
		if x == nil {
			return nil
		}
		ax := rng.Intn(x.d.Dims())
		reps := s.ownedInts("Repeat-counts", 1+rng.Intn(2))
		if rng.Intn(2) == 0 {
			cnt := make([]int, x.d.Shape()[ax])
			for i := range cnt {
				cnt[i] = 1 + rng.Intn(2)
			}
			reps = s.ownedInts("Repeat-counts", cnt...)
		}
		a := &c19Act{name: "Repeat", operand: []*c19T{x}}
		a.run = func() error {
			r, err := tensor.Repeat(x.d, ax, reps...)
			if rd, ok := r.(*tensor.Dense); ok && err == nil && len(s.live) < 8 && rng.Intn(2) == 0 {
				a.created = append(a.created, s.add(rd, -1, x.kind))
			}
			return err
		}
		return a
	case 23, 24:
		x := s.pick(hasAxes)
		if x == nil {
			return nil
		}
		y := s.pick(func(t *c19T) bool { return t.kind == x.kind && gen.ShapeEq(shp19(t), shp19(x)) })
		if y == nil {
			y = x
		}
		ax := rng.Intn(x.d.Dims())
		name := []string{"Concat", "Stack"}[rng.Intn(2)]
		a := &c19Act{name: name, operand: []*c19T{x, y}}
		a.run = func() error {
			var r tensor.Tensor
			var err error
			if name == "Concat" {
				r, err = tensor.Concat(ax, x.d, y.d)
			} else {
				r, err = tensor.Stack(ax, x.d, y.d)
			}
			if rd, ok := r.(*tensor.Dense); ok && err == nil && len(s.live) < 8 && rng.Intn(2) == 0 {
				a.created = append(a.created, s.add(rd, -1, x.kind))
			}
			return err
		}
		return a
	case 25, 26:
		x := s.pick(isF64)
		if x == nil {
			return nil
		}
		thr := float64(rng.Intn(40))
		name := []string{"MaskedGreater", "MaskedLess", "MaskedInside", "ResetMask", "SoftenMask", "HardenMask", "MaskFromSlice"}[rng.Intn(7)]
		var own []bool
		if name == "MaskFromSlice" {
			full := make([]bool, x.d.DataSize()+3)
			for i := range full {
				full[i] = rng.Intn(3) == 0
			}
			s.bools = append(s.bools, &c19Bools{"MaskFromSlice", full, append([]bool(nil), full...)})
			if len(s.bools) > 20 {
				s.bools = s.bools[1:]
			}
			own = full[:x.d.DataSize()]
		}
		return &c19Act{name: name, dest: x, run: func() error {
			switch name {
			case "MaskedGreater":
				return x.d.MaskedGreater(thr)
			case "MaskedLess":
				return x.d.MaskedLess(thr)
			case "MaskedInside":
				return x.d.MaskedInside(thr, thr+10)
			case "ResetMask":
				return x.d.ResetMask()
			case "SoftenMask":
				x.d.SoftenMask()
			case "HardenMask":
				x.d.HardenMask()
			case "MaskFromSlice":
				x.d.MaskFromSlice(own)
			}
			return nil
		}}
	case 27, 28:
		x := s.pick(hasAxes)
		if x == nil {
			return nil
		}
		sh := shp19(x)
		co := make([]int, len(sh))
		for i := range co {
			co[i] = rng.Intn(sh[i])
		}
		oc := s.ownedInts("coordinates", co...)
		if rng.Intn(2) == 0 {
			return &c19Act{name: "At", operand: []*c19T{x}, run: func() error { _, err := x.d.At(oc...); return err }}
		}
		var v interface{} = float64(rng.Intn(90))
		switch x.d.Dtype() {
		case tensor.Int:
			v = rng.Intn(90)
		case tensor.String:
			v = "w" + strconv.Itoa(rng.Intn(9000))
		case tensor.Bool:
			v = rng.Intn(2) == 0
		}
		return &c19Act{name: "SetAt", dest: x, run: func() error { return x.d.SetAt(v, oc...) }}
	case 29:
		x := s.pick(func(t *c19T) bool { return t.kind == "f64" || t.kind == "int" })
		if x == nil {
			return nil
		}
		if rng.Intn(2) == 0 {
			return &c19Act{name: "Zero", dest: x, run: func() error { x.d.Zero(); return nil }}
		}
		var v interface{} = float64(5)
		if x.kind == "int" {
			v = 5
		}
		return &c19Act{name: "Memset", dest: x, run: func() error { return x.d.Memset(v) }}
	case 30, 31, 32:
		return s.actReturn()
	case 33:
		s.pool = !s.pool
		return &c19Act{name: map[bool]string{true: "UsePool", false: "DontUsePool"}[s.pool], run: func() error {
			if s.pool {
				tensor.UsePool()
			} else {
				tensor.DontUsePool()
			}
			return nil
		}}
	case 34:
		// the application borrows ints, writes its own numbers and keeps them for a while
		n := 1 + rng.Intn(4)
		return &c19Act{name: "app:BorrowInts", run: func() error {
			is := tensor.BorrowInts(n)
			for i := range is {
				is[i] = 4400 + i
			}
			s.app = append(s.app, &c19Slice{what: "application-borrowed ints", full: is, want: append([]int(nil), is...)})
			return nil
		}}
	case 35:
		if len(s.app) == 0 {
			return nil
		}
		i := rng.Intn(len(s.app))
		sl := s.app[i]
		s.app = append(s.app[:i], s.app[i+1:]...)
		return &c19Act{name: "app:ReturnInts", run: func() error { tensor.ReturnInts(sl.full); return nil }}
	case 36:
		return &c19Act{name: "gc+churn", run: func() error {
			churn()
			if s.afterGC != nil {
				s.afterGC()
			}
			return nil
		}}
	case 37:
		// a burst of constructions drains the pools: whatever was returned is issued again now
		rank := 1 + rng.Intn(3)
		return &c19Act{name: "construct-burst", run: func() error {
			for i := 0; i < 6; i++ {
				sh := make([]int, rank)
				for j := range sh {
					sh[j] = 1 + (i+j)%3
				}
				d := tensor.New(tensor.Of(tensor.Float64), tensor.WithShape(sh...))
				if i%2 == 0 {
					d.T()
				}
				_ = d
			}
			return nil
		}}
	case 38:
		x := s.pick(func(t *c19T) bool { return t.kind == "f64" || t.kind == "int" })
		if x == nil {
			return nil
		}
		mode := rng.Intn(3)
		fnF := func(v float64) float64 { return v + 1 }
		fnI := func(v int) int { return v + 1 }
		a := &c19Act{name: "Apply", operand: []*c19T{x}}
		var opts []tensor.FuncOpt
		if mode == 1 {
			opts = append(opts, tensor.UseUnsafe())
			a.dest, a.operand, a.name = x, nil, "Apply(unsafe)"
		}
		if mode == 2 {
			if r := s.pick(func(t *c19T) bool { return t != x && t.kind == x.kind && t.d.Size() == x.d.Size() && hasAxes(t) }); r != nil {
				opts = append(opts, tensor.WithReuse(r.d))
				a.dest, a.name = r, "Apply(reuse)"
			}
		}
		a.run = func() error {
			var r tensor.Tensor
			var err error
			if x.kind == "f64" {
				r, err = x.d.Apply(fnF, opts...)
			} else {
				r, err = x.d.Apply(fnI, opts...)
			}
			if rd, ok := r.(*tensor.Dense); ok && err == nil && rd != x.d && (a.dest == nil || rd != a.dest.d) && len(s.live) < 8 && rng.Intn(2) == 0 {
				a.created = append(a.created, s.add(rd, -1, x.kind))
			}
			return err
		}
		return a
	default:
		return s.actConstruct()
	}
}

func (s *c19State) actConstruct() *c19Act {
	kind := []string{"f64", "f64", "f64", "int", "str"}[s.rng.Intn(5)]
	shape := c19Shapes[s.rng.Intn(len(c19Shapes))]
	col := s.rng.Intn(4) == 0
	a := &c19Act{name: "New(" + kind + ")"}
	a.run = func() error {
		if len(s.live) < 8 {
			a.created = append(a.created, s.add(s.newTensor(kind, shape, col), -1, kind))
		}
		return nil
	}
	return a
}

func (s *c19State) actReturn() *c19Act {
	x := s.pick(nil)
	if x == nil {
		return nil
	}
	return &c19Act{name: "ReturnTensor", drop: []*c19T{x}, dest: x, run: func() error { tensor.ReturnTensor(x.d); return nil }}
}

func (s *c19State) actElementwise() *c19Act {
	rng := s.rng
	x := s.pick(func(t *c19T) bool { return t.kind == "f64" || t.kind == "int" })
	if x == nil {
		return nil
	}
	y := s.pick(func(t *c19T) bool { return t != x && t.kind == x.kind && gen.ShapeEq(shp19(t), shp19(x)) })
	var scalar interface{} = float64(2 + rng.Intn(3))
	if x.kind == "int" {
		scalar = 2 + rng.Intn(3)
	}
	ops := map[string]func(a, b interface{}, opts ...tensor.FuncOpt) (tensor.Tensor, error){"Add": tensor.Add, "Sub": tensor.Sub, "Mul": tensor.Mul, "Gt": tensor.Gt, "ElEq": tensor.ElEq, "MinBetween": tensor.MinBetween}
	names := []string{"Add", "Sub", "Mul", "Gt", "ElEq", "MinBetween"}
	opn := names[rng.Intn(len(names))]
	isCmp := opn == "Gt" || opn == "ElEq"
	mode := []string{"safe", "unsafe", "reuse", "incr"}[rng.Intn(4)]
	if isCmp && (mode == "incr" || mode == "unsafe") {
		mode = "safe"
	}
	if opn == "MinBetween" && mode == "incr" {
		mode = "reuse"
	}
	form := rng.Intn(3) // 0: x,y  1: x,scalar  2: scalar,x
	if y == nil && form == 0 {
		form = 1
	}
	a := &c19Act{name: fmt.Sprintf("%s/%s/form%d", opn, mode, form), operand: []*c19T{x}}
	var opts []tensor.FuncOpt
	var r *c19T
	switch mode {
	case "unsafe":
		opts = append(opts, tensor.UseUnsafe())
		a.dest = x
		a.operand = nil
	case "reuse", "incr":
		// destination: a live tensor of the right shape and type, else a fresh one
		want := x.kind
		if isCmp {
			want = "bool"
		}
		r = s.pick(func(t *c19T) bool { return t != x && t != y && t.kind == want && gen.ShapeEq(shp19(t), shp19(x)) })
		if r == nil {
			var rd *tensor.Dense
			switch want {
			case "bool":
				rd = tensor.New(tensor.Of(tensor.Bool), tensor.WithShape(shp19(x)...))
			case "int":
				rd = tensor.New(tensor.Of(tensor.Int), tensor.WithShape(shp19(x)...))
			default:
				rd = tensor.New(tensor.Of(tensor.Float64), tensor.WithShape(shp19(x)...))
			}
			r = s.add(rd, -1, want)
		}
		a.dest = r
		if mode == "incr" {
			opts = append(opts, tensor.WithIncr(r.d))
		} else {
			opts = append(opts, tensor.WithReuse(r.d))
		}
	}
	if form == 0 {
		a.operand = append(a.operand, y)
	}
	a.run = func() error {
		var res tensor.Tensor
		var err error
		switch form {
		case 0:
			res, err = ops[opn](x.d, y.d, opts...)
		case 1:
			res, err = ops[opn](x.d, scalar, opts...)
		default:
			res, err = ops[opn](scalar, x.d, opts...)
		}
		if rd, ok := res.(*tensor.Dense); ok && err == nil && mode == "safe" && len(s.live) < 8 && rng.Intn(2) == 0 {
			k := x.kind
			if isCmp {
				k = "bool"
			}
			a.created = append(a.created, s.add(rd, -1, k))
		}
		return err
	}
	return a
}

func (s *c19State) actProduct() *c19Act {
	rng := s.rng
	kind := rng.Intn(6)
	if kind >= 4 {
		// contractions over operands of any rank and extent (single elements, unit axes, column-major, views ...)
		x := s.pick(func(t *c19T) bool { return t.kind == "f64" && hasAxes(t) })
		if x == nil {
			return nil
		}
		sh := shp19(x)
		a := &c19Act{operand: []*c19T{x}}
		keep := func(r tensor.Tensor, err error) error {
			if rd, ok := r.(*tensor.Dense); ok && err == nil && len(s.live) < 8 && rng.Intn(2) == 0 {
				a.created = append(a.created, s.add(rd, -1, "f64"))
			}
			return err
		}
		if kind == 4 {
			a.name = "TensorMul(all axes)"
			y := s.pick(func(t *c19T) bool { return t.kind == "f64" && hasAxes(t) && gen.ShapeEq(shp19(t), sh) })
			if y == nil {
				y = x
			} else if y != x {
				a.operand = append(a.operand, y)
			}
			all := make([]int, len(sh))
			for i := range all {
				all[i] = i
			}
			aa, ba := s.ownedInts("TensorMul-axesA", all...), s.ownedInts("TensorMul-axesB", all...)
			a.run = func() error { return keep(x.d.TensorMul(y.d, aa, ba)) }
			return a
		}
		a.name = "Dot"
		last := sh[len(sh)-1]
		a.run = func() error { return keep(tensor.Dot(x.d, s.newTensor("f64", []int{last, 2}, rng.Intn(2) == 0))) }
		return a
	}
	x := s.pick(func(t *c19T) bool { return t.kind == "f64" && t.d.Dims() == 2 })
	if x == nil {
		return nil
	}
	sh := shp19(x)
	a := &c19Act{operand: []*c19T{x}}
	keep := func(r tensor.Tensor, err error) error {
		if rd, ok := r.(*tensor.Dense); ok && err == nil && len(s.live) < 8 && rng.Intn(2) == 0 {
			a.created = append(a.created, s.add(rd, -1, "f64"))
		}
		return err
	}
	// a live tensor of the right size as reuse destination (it may be lazily transposed, a view, column-major ...)
	reuseOf := func(size int) []tensor.FuncOpt {
		if rng.Intn(2) == 0 {
			return nil
		}
		r := s.pick(func(t *c19T) bool { return t != x && t.kind == "f64" && t.d.Size() == size && hasAxes(t) })
		if r == nil {
			return nil
		}
		a.dest = r
		a.name += "(reuse)"
		return []tensor.FuncOpt{tensor.WithReuse(r.d)}
	}
	switch kind {
	case 0:
		a.name = "MatMul"
		other := s.pick(func(t *c19T) bool { return t.kind == "f64" && t.d.Dims() == 2 && t.d.Shape()[0] == sh[1] })
		cols := 2
		if other != nil {
			cols = other.d.Shape()[1]
		}
		opts := reuseOf(sh[0] * cols)
		if a.dest != nil && a.dest == other {
			a.dest, opts, a.name = nil, nil, "MatMul"
		}
		a.run = func() error {
			o := other
			if o == nil {
				o = &c19T{d: s.newTensor("f64", []int{sh[1], 2}, false)}
			} else {
				a.operand = append(a.operand, o)
			}
			r, err := x.d.MatMul(o.d, opts...)
			if a.dest != nil {
				return err
			}
			return keep(r, err)
		}
	case 1:
		a.name = "MatVecMul"
		opts := reuseOf(sh[0])
		a.run = func() error {
			r, err := x.d.MatVecMul(s.newTensor("f64", []int{sh[1]}, false), opts...)
			if a.dest != nil {
				return err
			}
			return keep(r, err)
		}
	case 2:
		a.name = "TensorMul"
		aa, ba := s.ownedInts("TensorMul-axesA", 1), s.ownedInts("TensorMul-axesB", 0)
		a.run = func() error { return keep(x.d.TensorMul(s.newTensor("f64", []int{sh[1], 3}, false), aa, ba)) }
	default:
		a.name = "Outer"
		v := s.pick(func(t *c19T) bool { return t.kind == "f64" && t.d.Dims() == 1 })
		if v == nil {
			return nil
		}
		a.operand = []*c19T{v}
		a.run = func() error { return keep(v.d.Outer(s.newTensor("f64", []int{3}, false))) }
	}
	return a
}

// compare returns a description of the first difference between a tensor's snapshot and its current state.
func (s *c19State) compare(t *c19T, elementsMayChange bool) (what string, detail string) {
	var meta gen.Meta
	p, msg := core.Catch(func() { meta = gen.MetaOf(t.d) })
	if p {
		return "unreadable", msg
	}
	if d := t.meta.Diff(meta); d != "" && !(elementsMayChange && strings.HasPrefix(d, "mask")) {
		w := "metadata"
		switch {
		case strings.HasPrefix(d, "shape"):
			w = "shape"
		case strings.HasPrefix(d, "strides"):
			w = "strides"
		case strings.HasPrefix(d, "mask"):
			w = "mask"
		case strings.HasPrefix(d, "order"):
			w = "order"
		}
		return w, d
	}
	if elementsMayChange {
		return "", ""
	}
	nd, err := gen.ReadAll(t.d)
	if err != nil {
		if t.rerr != "" {
			return "", ""
		}
		return "unreadable", err.Error()
	}
	if t.nd == nil {
		return "", ""
	}
	for i := range nd.V {
		if i >= len(t.nd.V) || !model.Same(nd.V[i], t.nd.V[i]) {
			return "elements", fmt.Sprintf("element %d was %v, is %v", i, at(t.nd.V, i), nd.V[i])
		}
	}
	return "", ""
}

func at(v []interface{}, i int) interface{} {
	if i < len(v) {
		return v[i]
	}
	return "<none>"
}

func (s *c19State) step(prog int, i int) bool {
	if seed, ok := s.reseed[i]; ok {
		s.rng = rand.New(rand.NewSource(seed))
	}
	a := s.next()
	if a == nil {
		return true
	}
	var featPre string
	if s.feats != nil {
		featPre = a.name + "|d=" + c19Class(a.dest)
		if len(a.operand) > 0 {
			featPre += "|" + c19Class(a.operand[0])
		}
	}
	ids := func(ts []*c19T) string {
		var o []string
		for _, t := range ts {
			if t != nil {
				o = append(o, fmt.Sprintf("#%d%v", t.id, t.meta.Shape))
			}
		}
		return strings.Join(o, ",")
	}
	entry := a.name
	if a.note != "" {
		entry += " " + a.note
	}
	if a.dest != nil {
		entry += " dest=" + ids([]*c19T{a.dest})
	}
	if len(a.operand) > 0 {
		entry += " operands=" + ids(a.operand)
	}
	s.hist = append(s.hist, entry)
	caseKey := fmt.Sprintf("%s/program%d/step%d/%s", "prog", prog, i, a.name)
	var err error
	p, msg := core.Catch(func() { err = a.run() })
	if len(a.created) > 0 {
		s.hist[len(s.hist)-1] += " -> " + ids(a.created)
	}
	if s.debug {
		fmt.Fprintf(os.Stderr, "STEP %d %s err=%v panic=%v\n", i, s.hist[len(s.hist)-1], err, msg)
		for _, t := range s.live {
			core.Catch(func() {
				nd, e := gen.ReadAll(t.d)
				var v interface{} = e
				if nd != nil {
					v = nd.V
				}
				fmt.Fprintf(os.Stderr, "     #%d %s g%d shape=%v strides=%v view=%v masked=%v ptr=%#x size=%d vals=%v\n", t.id, t.kind, t.group, t.d.Shape(), t.d.Strides(), t.d.IsView(), t.d.IsMasked(), t.lo, t.hi-t.lo, v)
			})
		}
	}
	opClass := a.name
	if j := strings.Index(opClass, "/"); j >= 0 {
		opClass = opClass[:j]
	}
	s.c.Eval(core.Sig(opClass, fmt.Sprint(len(s.live))), true)
	if p {
		s.c.Tally("step-panicked:" + opClass)
	} else if err != nil {
		s.c.Tally("step-refused:" + opClass)
	}
	if s.feats != nil {
		out := "ok"
		if p {
			out = "panic"
		} else if err != nil {
			out = "refused"
		}
		s.feats[featPre+"|"+out] = struct{}{}
		s.feats[s.prevOp+">"+opClass] = struct{}{}
		s.prevOp = opClass
	}
	desc := func() map[string]interface{} {
		h := s.hist
		if len(h) > 60 {
			h = h[len(h)-60:]
		}
		return map[string]interface{}{"program": prog, "step": i, "operation": a.name, "history": append([]string(nil), h...), "pool": s.pool, "panic": msg}
	}
	created := map[*c19T]bool{}
	for _, t := range a.created {
		created[t] = true
		for _, o := range a.operand {
			// whatever is made from such a view (a slice of it, but also its clone or a safe result shaped like it) inherits
			// the oversized storage window
			if o != nil && o.taint != "" && t != nil {
				t.taint = o.taint
			}
		}
	}
	tainted := func(t *c19T) bool {
		if t == nil {
			return false
		}
		if t.taint != "" {
			return true
		}
		return false
	}
	involvesKF03 := tainted(a.dest)
	for _, o := range a.operand {
		involvesKF03 = involvesKF03 || tainted(o)
	}
	dropped := map[*c19T]bool{}
	for _, t := range a.drop {
		dropped[t] = true
	}
	bad := false
	for _, t := range s.live {
		if t == a.dest || created[t] || dropped[t] {
			continue
		}
		alias := a.dest != nil && t.group == a.dest.group
		what, detail := s.compare(t, alias && !dropped[a.dest])
		if what == "" {
			continue
		}
		rel := "unrelated"
		for _, o := range a.operand {
			if o == t {
				rel = "operand"
			}
		}
		if alias {
			rel = "shares-storage-with-destination"
		}
		if a.dest != nil && dropped[a.dest] && t.group == a.dest.group {
			rel = "shares-storage-with-returned"
		}
		if a.dest != nil && !alias && t.hi > t.lo && a.dest.hi > a.dest.lo && t.lo < a.dest.hi && a.dest.lo < t.hi {
			// the harness believed these two to be independent: one of them was handed out by an operation that is
			// supposed to return fresh storage
			rel = "independent-tensor-overlapping-destination"
			detail += fmt.Sprintf(" [victim born %s, destination born %s]", t.born, a.dest.born)
		}
		if involvesKF03 && what == "elements" {
			// deviation hypothesis (KF-03): a view made by a stepped slice of the leading axis has a shape rounded down but a
			// storage window covering the whole range; kernels that trust the window write the parent's other elements
			s.c.Violation(core.Sig("Slice", "axis0-stepped-floor", "window-larger-than-shape", "neighbouring-elements-written"), caseKey, desc(), "only the destination changes", detail)
			bad = true
			continue
		}
		if what == "elements" && strings.Contains(a.name, "/incr/") {
			// deviation hypothesis (KF-19): with a single-element operand the increment kernels compute into the operand's own
			// buffer; the operand, and whatever shares its storage, then holds the result
			single := false
			for _, o := range a.operand {
				if o != nil && model.Size(o.meta.Shape) == 1 && (o == t || o.group == t.group) {
					single = true
				}
			}
			if single {
				s.c.Violation(core.Sig("incr", "single-element", "operand-a-overwritten-with-result"), caseKey, desc(), "operand untouched", detail)
				bad = true
				continue
			}
		}
		detail += fmt.Sprintf(" [victim shape %v strides %v view=%v, born %s]", t.meta.Shape, t.meta.Strides, t.meta.IsView, t.born)
		if a.dest != nil {
			detail += fmt.Sprintf(" [destination #%d shape %v strides %v view=%v, born %s]", a.dest.id, a.dest.meta.Shape, a.dest.meta.Strides, a.dest.meta.IsView, a.dest.born)
		}
		s.c.Violation(core.Sig(opClass, "victim="+rel, what), caseKey, desc(), "tensor #"+strconv.Itoa(t.id)+" ("+t.kind+") unchanged", detail)
		bad = true
	}
	for _, sl := range s.ints {
		for k := range sl.full {
			if sl.full[k] != sl.want[k] {
				s.c.Violation(core.Sig(opClass, "victim=caller-slice", sl.what), caseKey, desc(), fmt.Sprint(sl.want), fmt.Sprint(sl.full))
				copy(sl.want, sl.full)
				bad = true
				break
			}
		}
	}
	for _, sl := range s.bools {
		for k := range sl.full {
			if sl.full[k] != sl.want[k] {
				// a mask handed over with MaskFromSlice is documented to be shared with the tensor: masking operations on that
				// tensor legitimately write it. Only changes by steps that do not name a masked destination are reported.
				if a.dest != nil && a.dest.kind == "f64" && (strings.HasPrefix(opClass, "Masked") || opClass == "ResetMask" || opClass == "MaskFromSlice") {
					copy(sl.want, sl.full)
					break
				}
				s.c.Violation(core.Sig(opClass, "victim=caller-mask", sl.what), caseKey, desc(), "the caller's []bool as it was", fmt.Sprint("position ", k, " changed"))
				copy(sl.want, sl.full)
				bad = true
				break
			}
		}
	}
	for _, sl := range s.app {
		if a.name == "app:BorrowInts" && sl == s.app[len(s.app)-1] {
			continue
		}
		for k := range sl.full {
			if sl.full[k] != sl.want[k] {
				s.c.Violation(core.Sig(opClass, "victim=application-borrowed-ints"), caseKey, desc(), fmt.Sprint(sl.want), fmt.Sprint(sl.full))
				copy(sl.want, sl.full)
				bad = true
				break
			}
		}
	}
	// re-snapshot: destination, created, and everything after a reported change (so one corruption is reported once)
	for _, t := range a.drop {
		s.remove(t)
	}
	if p && a.dest != nil {
		s.remove(a.dest) // a destination whose operation panicked half-way is finished as far as the program is concerned
	}
	for _, t := range s.live {
		if bad || t == a.dest || (a.dest != nil && t.group == a.dest.group) {
			s.snapshot(t)
		}
	}
	if s.c.WantSample("program") && i > 30 {
		s.c.Sample("program", map[string]interface{}{"program": prog, "first_steps": append([]string(nil), s.hist[:30]...), "population": len(s.live)})
	}
	return !bad
}

func c19DrainPools() {
	// empty the ints pools (two collections clear a sync.Pool) and the tensor pool (constructions until nothing is re-issued)
	runtime.GC()
	runtime.GC()
	reissued := true
	tensor.VerifSetPoolHook(func(kind int, ptr uintptr, l, c int) {
		if kind == 2 {
			reissued = true
		}
	})
	for i := 0; i < 5000 && reissued; i++ {
		reissued = false
		_ = tensor.New(tensor.Of(tensor.Float64), tensor.WithShape(1))
	}
	tensor.VerifSetPoolHook(nil)
}

// c19Program runs one program: the PRNG seeded with seed, a length drawn from it (length < 0) or given, the PRNG exchanged at
// the steps named in reseed. It returns the final state (history, features).
func c19Program(c *core.Ctx, batch, pi int, seed int64, length int, reseed map[int]int64, feats bool) *c19State {
	tensor.UsePool()
	c19DrainPools()
	gcWas := debug.SetGCPercent(-1)
	// pool trace: with the collector off an address names one array for the whole program, so an array handed back twice
	// with no borrow in between sits in the pool twice and will be issued to two owners
	inPool := map[[2]uintptr]bool{}
	doubleReturn := ""
	poolEvents := 0
	tensor.VerifSetPoolHook(func(kind int, ptr uintptr, l, cp int) {
		if ptr == 0 {
			return
		}
		poolEvents++
		k := [2]uintptr{uintptr(kind / 2), ptr}
		switch kind {
		case 0, 2:
			inPool[k] = false
		case 1, 3:
			if inPool[k] && doubleReturn == "" {
				doubleReturn = tensor.VerifPoolEventKinds[kind]
			}
			inPool[k] = true
		}
	})
	rng := rand.New(rand.NewSource(seed))
	s := &c19State{c: c, rng: rng, pool: true, debug: os.Getenv("VERIF_C19_DEBUG") == fmt.Sprintf("%d/%d", batch, pi), reseed: reseed}
	if feats {
		s.feats = map[string]struct{}{}
	}
	s.afterGC = func() {
		for k := range inPool {
			delete(inPool, k)
		}
	}
	if length < 0 {
		length = 5 + rng.Intn(196)
	}
	c.Begin(fmt.Sprintf("program%d", pi))
	for i := 0; i < length; i++ {
		if !s.step(pi, i) {
			s.failed = true
			break // everything after the first corruption of a program would be its consequence: one program, one finding
		}
		if doubleReturn != "" {
			op := s.hist[len(s.hist)-1]
			if j := strings.IndexAny(op, " /"); j > 0 {
				op = op[:j]
			}
			h := s.hist
			if len(h) > 60 {
				h = h[len(h)-60:]
			}
			c.Violation(core.Sig(op, "pool-double-return", doubleReturn), fmt.Sprintf("prog/program%d/step%d/%s", pi, i, op),
				map[string]interface{}{"program": pi, "step": i, "history": append([]string(nil), h...)}, "an array is returned to its pool once per borrow", "returned again while already in the pool")
			s.failed = true
			break
		}
	}
	tensor.VerifSetPoolHook(nil)
	debug.SetGCPercent(gcWas)
	c.Extra("program_steps", len(s.hist))
	c.Extra("pool_events", poolEvents)
	return s
}

func c19Batch(c *core.Ctx, batch, per int) {
	prevP := runtime.GOMAXPROCS(1)
	defer runtime.GOMAXPROCS(prevP)
	for pi := 0; pi < per; pi++ {
		c19Program(c, batch, pi, core.SeedFor(c.Seed, fmt.Sprintf("c19/%d/%d", batch, pi)), -1, nil, false)
	}
	tensor.UsePool()
	// negative control: a change of an undesignated tensor is noticed by the comparison
	s := &c19State{c: c, rng: rand.New(rand.NewSource(1)), pool: true}
	t := s.add(s.newTensor("f64", []int{2, 3}, false), -1, "f64")
	t.d.SetAt(float64(-1), 1, 1)
	w, _ := s.compare(t, false)
	t2 := s.add(s.newTensor("f64", []int{2, 3}, false), -1, "f64")
	t2.d.T()
	w2, _ := s.compare(t2, false)
	c.Control(w == "elements" && w2 != "")
}

// c19Guided is feature-guided generation. A corpus keeps every program that exercised a feature no earlier program of this
// batch had (a feature: operation and option mode x state classes of destination and operands x outcome, or a pair of
// consecutive operations). A new program is, one time in four, random; otherwise a corpus program replayed up to a random
// step and continued with another PRNG stream. Everything is derived from the run seed, so a batch replays identically.
func c19Guided(c *core.Ctx, batch, iterations int) {
	prevP := runtime.GOMAXPROCS(1)
	defer runtime.GOMAXPROCS(prevP)
	type prog struct {
		seed   int64
		length int
		reseed map[int]int64
	}
	pick := rand.New(rand.NewSource(core.SeedFor(c.Seed, fmt.Sprintf("c19/guided/%d", batch))))
	global := map[string]struct{}{}
	var corpus []prog
	randomFeats, kept := 0, 0
	for it := 0; it < iterations; it++ {
		var p prog
		if len(corpus) == 0 || pick.Intn(4) == 0 {
			p = prog{seed: pick.Int63(), length: 5 + pick.Intn(196)}
		} else {
			// later corpus entries reached rarer features: prefer them
			k := len(corpus) - 1 - int(float64(len(corpus))*pick.Float64()*pick.Float64())
			parent := corpus[k]
			at := pick.Intn(parent.length)
			p = prog{seed: parent.seed, reseed: map[int]int64{at: pick.Int63()}}
			for a, sd := range parent.reseed {
				if a < at {
					p.reseed[a] = sd
				}
			}
			p.length = at + 5 + pick.Intn(120)
			if p.length > 200 {
				p.length = 200
			}
		}
		s := c19Program(c, batch, 1000+it, p.seed, p.length, p.reseed, true)
		fresh := 0
		for f := range s.feats {
			if _, ok := global[f]; !ok {
				global[f] = struct{}{}
				fresh++
			}
		}
		if p.reseed == nil {
			randomFeats += fresh
		}
		if fresh > 0 && !s.failed {
			if len(s.hist) < p.length {
				p.length = len(s.hist)
			}
			if p.length > 0 {
				corpus = append(corpus, p)
				kept++
			}
		}
	}
	tensor.UsePool()
	c.Extra("guided_programs", iterations)
	c.Extra("guided_corpus_kept", kept)
	c.Extra("guided_features", len(global))
	c.Extra("guided_features_first_seen_in_random_programs", randomFeats)
	c.Control(len(global) > 0)
}

func fmtSlices(sl []tensor.Slice) string {
	var o []string
	for _, x := range sl {
		if x == nil {
			o = append(o, ":")
		} else {
			o = append(o, fmt.Sprintf("%d:%d:%d", x.Start(), x.End(), x.Step()))
		}
	}
	return "[" + strings.Join(o, ",") + "]"
}
