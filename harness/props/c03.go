package props

import (
	"fmt"
	"reflect"
	"strings"

	"gorgonia.org/tensor"
	"verifharness/core"
	"verifharness/gen"
	"verifharness/model"
)

// C03 — transposition is a pure permutation of axes.

func init() {
	register(&core.Prop{
		ID: "C03",
		Rule: "sources {C, S (sliced view of a larger parent), SS (stepped slice), F, Fconv} x element widths 1,2,4,8,16 bytes and strings x shapes of rank 0-5 (incl. unit axes, vectors, equal-dim cubes): " +
			"(a) EVERY axis permutation (and the default reversal) through T / UT / Transpose / SafeT / tensor.T / tensor.Transpose; (b) ALL sequences of operation kinds {T(p), T(), UT, Transpose, Materialize, SafeT(p), RollAxis, tensor.T, tensor.Transpose} up to the tier's full length (parameters PRNG-chosen), longer ones sampled, the model carrying the logical array through the sequence; (c) TransposeIndex/UntransposeIndex against the model's permuted rank for every index. " +
			"After every step the tensor is read through At and compared with the model; after a physical move Data() must be the logical flattening in the tensor's own order with default strides; copies must be storage-disjoint; a sliced source's parent must be untouched outside the view. distinct_nontrivial counts distinct (source, width, shape, op-kind sequence or permutation) keys on tensors of rank>=2 with more than one element.",
		Assume: []string{"after two stacked lazy transposes both readings of UT (undo the last / undo all) are accepted, nothing else"},
		Groups: c03Groups,
		Flavours: func(tier string) []string {
			if tier == "thorough" {
				return []string{"plain", "inplace"}
			}
			return []string{"plain", "inplace"}
		},
	})
}

func c03Types(tier string) []reflect.Type {
	if tier == "thorough" {
		return []reflect.Type{model.TBool, model.TInt8, model.TInt16, model.TF32, model.TInt32, model.TF64, model.TC64, model.TC128, model.TStr}
	}
	return []reflect.Type{model.TInt8, model.TInt16, model.TF32, model.TF64, model.TC128, model.TStr}
}

var c03Sources = []string{gen.LC, gen.LS, gen.LSS, gen.LF, gen.LFconv}

func c03Shapes(tier string) [][]int {
	out := [][]int{{}, {1}, {3}, {4}}
	out = append(out, shapesOver(2, []int{1, 2, 3})...)
	if tier == "thorough" {
		out = append(out, shapesOver(3, []int{1, 2, 3})...)
		out = append(out, shapesOver(4, []int{1, 2})...)
		out = append(out, []int{3, 2, 3, 2}, []int{2, 3, 3, 3}, []int{3, 3, 3, 3}, []int{1, 3, 2, 3}, []int{2, 2, 2, 2, 2}, []int{2, 1, 3, 2, 2}, []int{1, 2, 2, 3, 1}, []int{3, 2, 1, 2, 2})
	} else {
		out = append(out, []int{2, 3, 4}, []int{2, 2, 2}, []int{3, 3, 3}, []int{1, 3, 2}, []int{3, 1, 2}, []int{2, 3, 1}, []int{1, 1, 3}, []int{3, 1, 1}, []int{1, 3, 1}, []int{1, 4, 1, 1},
			[]int{2, 3, 2, 2}, []int{2, 2, 2, 2}, []int{1, 3, 2, 1}, []int{3, 2, 1, 2}, []int{2, 2, 2, 2, 2}, []int{2, 1, 3, 2, 2})
	}
	return out
}

func c03Groups(tier string) []core.Group {
	var gs []core.Group
	for _, src := range c03Sources {
		for _, t := range c03Types(tier) {
			src, t := src, t
			gs = append(gs, core.Group{Key: fmt.Sprintf("perm/%s/%s", src, model.Name(t)), Run: func(c *core.Ctx) { c03Perms(c, src, t) }})
			for si, shape := range c03Shapes(tier) {
				shape := shape
				if len(shape) < 2 && src != gen.LC {
					continue
				}
				gs = append(gs, core.Group{Key: fmt.Sprintf("seq/%s/%s#%d%s", src, model.Name(t), si, shapeStr(shape)), Run: func(c *core.Ctx) { c03Seqs(c, src, t, shape) }})
			}
		}
	}
	gs = append(gs, core.Group{Key: "index-helpers", Run: c03IndexHelpers})
	return gs
}

// ---- the sequence machine ----

type c03State struct {
	d       *tensor.Dense
	cur     *model.ND
	base    *model.ND // content before the first pending lazy transpose (nil: nothing pending)
	prev    *model.ND // content before the latest pending lazy transpose
	pend    []int     // axes of the latest pending lazy transpose
	isRoot  bool      // d owns its whole storage (not a view of a parent)
	colMaj  bool
	op      *gen.Operand
	snap    interface{} // parent snapshot for S sources
	keep    []*tensor.Dense
	history []string
}

type c03Op struct {
	kind string
	perm []int
	axis int
	strt int
	safe bool
}

func (o c03Op) String() string {
	switch o.kind {
	case "T(p)", "SafeT(p)", "tensor.T", "tensor.Transpose":
		return fmt.Sprintf("%s%v", o.kind, o.perm)
	case "RollAxis":
		return fmt.Sprintf("RollAxis(%d,%d,%v)", o.axis, o.strt, o.safe)
	}
	return o.kind
}

var c03Kinds = []string{"T(p)", "T()", "UT", "Transpose", "Materialize", "SafeT(p)", "RollAxis", "tensor.T", "tensor.Transpose"}

func rollAxes(rank, axis, start int) ([]int, bool) {
	if axis < start {
		start--
	}
	if axis == start {
		return nil, false
	}
	var axes []int
	for i := 0; i < rank; i++ {
		if i != axis {
			axes = append(axes, i)
		}
	}
	out := append([]int{}, axes[:start]...)
	out = append(out, axis)
	out = append(out, axes[start:]...)
	return out, true
}

func overlaps(a, b *tensor.Dense) bool {
	as, ae := a.Uintptr(), a.Uintptr()+a.MemSize()
	bs, be := b.Uintptr(), b.Uintptr()+b.MemSize()
	if a.MemSize() == 0 || b.MemSize() == 0 {
		return false
	}
	return as < be && bs < ae
}

func defaultStrides(shape []int, col bool) []int {
	s := make([]int, len(shape))
	acc := 1
	if col {
		for i := 0; i < len(shape); i++ {
			s[i] = acc
			acc *= shape[i]
		}
	} else {
		for i := len(shape) - 1; i >= 0; i-- {
			s[i] = acc
			acc *= shape[i]
		}
	}
	return s
}

type c03Judge struct {
	oldNonDefault bool // the strides the in-place mover will divide by are not the default row-major ones
	c             *core.Ctx
	src           string
	tn            string
	shape         []int
	corrupt       bool
}

func (j *c03Judge) viol(st *c03State, op string, symptom, want, got string) {
	if j.corrupt {
		return
	}
	pend := "clean"
	if st.base != nil {
		pend = "pending"
	}
	_ = pend
	if symptom == "panic" && strings.Contains(got, "ItoL failure") {
		// the in-place mover's index arithmetic; class field: were the original strides the default row-major ones?
		cls := "old-default"
		if j.oldNonDefault {
			cls = "old-nondefault"
		}
		caseKey := fmt.Sprintf("%s/%s/%s:%s", j.src, j.tn, shapeStr(j.shape), strings.Join(st.history, ";"))
		j.c.Violation(core.Sig(op, "panic:ItoL", cls), caseKey, map[string]interface{}{"source": j.src, "dtype": j.tn, "shape": j.shape, "sequence": st.history, "recipe": st.op.Recipe}, want, got)
		return
	}
	caseKey := fmt.Sprintf("%s/%s/%s:%s", j.src, j.tn, shapeStr(j.shape), strings.Join(st.history, ";"))
	j.c.Violation(core.Sig(op, j.src, symptom), caseKey, map[string]interface{}{"source": j.src, "dtype": j.tn, "shape": j.shape, "sequence": st.history, "recipe": st.op.Recipe}, want, got)
}

// content checks that d reads as cur.
func (j *c03Judge) content(st *c03State, op string, sym string) bool {
	if err := gen.ReadMatches(st.d, st.cur); err != nil {
		if j.corrupt {
			j.c.Control(true)
			return false
		}
		j.viol(st, op, sym, "the permuted array "+shapeStr(st.cur.Shape), err.Error())
		return false
	}
	return true
}

func (j *c03Judge) physical(st *c03State, op string) bool {
	// storage in the logical order of the (transposed) tensor, default strides; only for tensors owning their storage
	if !st.isRoot || len(st.cur.Shape) == 0 {
		return true
	}
	want := st.cur.V
	if st.colMaj {
		want = model.ColMajorSeq(st.cur)
	}
	got := model.FromSlice(st.d.Data())
	// a copy made from a sliced view keeps the view's storage window, which may be longer than the
	// tensor: the statement is about the order of the tensor's elements, so the leading Size() elements are judged
	ok := len(got) >= len(want)
	if ok {
		got = got[:len(want)]
	}
	if ok {
		for i := range want {
			if !model.Same(got[i], want[i]) {
				ok = false
				break
			}
		}
	}
	if !ok {
		ord := "row-major"
		if st.colMaj {
			ord = "col-major"
		}
		j.viol(st, op, "storage-not-in-logical-order|"+ord, short(want), short(got))
		return false
	}
	ds := defaultStrides(st.cur.Shape, st.colMaj)
	if !gen.ShapeEq(ds, st.d.Strides()) && model.Size(st.cur.Shape) > 1 {
		// vectors may legitimately carry unit strides on unit axes; compare addressing instead of raw numbers
		same := true
		model.Each(st.cur.Shape, func(c []int, r int) {
			a, b := 0, 0
			for i := range c {
				a += c[i] * ds[i]
				if i < len(st.d.Strides()) {
					b += c[i] * st.d.Strides()[i]
				}
			}
			if a != b {
				same = false
			}
		})
		if !same {
			j.viol(st, op, "strides-not-default", fmt.Sprint(ds), fmt.Sprint(st.d.Strides()))
			return false
		}
	}
	return true
}

func (j *c03Judge) frame(st *c03State, op string) bool {
	if st.op == nil || st.snap == nil {
		return true
	}
	if ch := st.op.OutsideChanged(st.snap); len(ch) > 0 {
		j.viol(st, op, "parent-outside-view-changed", "parent untouched outside the view", fmt.Sprintf("positions %v", ch))
		// restore
		bv, sv := reflect.ValueOf(st.op.Backing), reflect.ValueOf(st.snap)
		for _, i := range ch {
			bv.Index(i).Set(sv.Index(i))
		}
		return false
	}
	return true
}

// apply executes one operation and judges it. Returns false when the sequence cannot continue.
func (j *c03Judge) apply(st *c03State, o c03Op) bool {
	st.history = append(st.history, o.String())
	rank := len(st.cur.Shape)
	d := st.d
	var err error
	{
		info := tensor.VerifIntrospect(d)
		switch o.kind {
		case "SafeT(p)", "tensor.T", "tensor.Transpose":
			j.oldNonDefault = !gen.ShapeEq(d.Strides(), defaultStrides([]int(d.Shape()), false)) || d.DataOrder().IsColMajor()
		default:
			j.oldNonDefault = (!info.OldZero && !gen.ShapeEq(info.OldStrides, defaultStrides(info.OldShape, false))) || d.DataOrder().IsColMajor()
		}
		if o.kind == "RollAxis" && o.safe {
			j.oldNonDefault = !gen.ShapeEq(d.Strides(), defaultStrides([]int(d.Shape()), false)) || d.DataOrder().IsColMajor()
		}
		// a storage window longer than the tensor (a copy of a stepped view keeps the view's window) is the same
		// situation for the mover: storage positions that do not decompose into coordinates by the default strides
		if es := int(d.Dtype().Size()); es > 0 && int(d.MemSize())/es > d.Size() {
			j.oldNonDefault = true
		}
	}
	lazyT := func(p []int, call func() error) bool {
		before := st.cur
		pp, msg := core.Catch(func() { err = call() })
		if pp {
			j.viol(st, o.kind, "panic", "transposed tensor", msg)
			return false
		}
		if err != nil {
			if !st.isRoot && st.base != nil {
				// a second lazy transpose needs the data of the first one moved, which a non-contiguous view cannot do in place:
				// a refusal that leaves tensor and parent untouched is accepted (DESIGN §6a)
				if j.content(st, o.kind, "changed-by-refused-call") && j.frame(st, o.kind) {
					j.c.Refused("stacked-lazy-transpose-on-view")
				}
				return false
			}
			j.viol(st, o.kind, "error-on-valid", "transposed tensor", err.Error())
			return false
		}
		st.cur = model.Permute(before, p)
		noop := model.IsIdentity(p) || model.Size(before.Shape) <= 1 || rank < 2
		stacked := st.base != nil
		if !noop {
			if st.base != nil && st.pend != nil && model.IsIdentity(model.Compose(st.pend, p)) {
				// the new transpose undoes the pending one: nothing is pending any more
				st.base, st.prev, st.pend = nil, nil, nil
			} else {
				if st.base == nil {
					st.base = before
				}
				st.prev = before
				st.pend = append([]int(nil), p...)
			}
		}
		sym := "wrong-after-lazy"
		if stacked {
			sym = "wrong-after-stacked-lazy"
		}
		if !j.content(st, o.kind, sym) {
			return false
		}
		return j.frame(st, o.kind)
	}
	copyT := func(p []int, call func() (tensor.Tensor, error), physical bool) bool {
		before := st.cur
		metaBefore := gen.MetaOf(d)
		var res tensor.Tensor
		pp, msg := core.Catch(func() { res, err = call() })
		if pp {
			j.viol(st, o.kind, "panic", "transposed copy", msg)
			return false
		}
		if err != nil {
			j.viol(st, o.kind, "error-on-valid", "transposed copy", err.Error())
			return false
		}
		nd, ok := res.(*tensor.Dense)
		if !ok || nd == nil {
			j.viol(st, o.kind, "not-dense", "*Dense", fmt.Sprintf("%T", res))
			return false
		}
		// source unchanged
		if diff := metaBefore.Diff(gen.MetaOf(d)); diff != "" {
			j.viol(st, o.kind, "source-metadata-changed", "source untouched", diff)
			return false
		}
		if e := gen.ReadMatches(d, before); e != nil {
			j.viol(st, o.kind, "source-changed", "source untouched", e.Error())
			return false
		}
		if nd == d || (overlaps(nd, d) && model.Size(before.Shape) > 0) {
			j.viol(st, o.kind, "copy-shares-storage", "disjoint storage", "overlapping address ranges")
			return false
		}
		st.keep = append(st.keep, d)
		st.d = nd
		st.cur = model.Permute(before, p)
		st.isRoot = true
		st.colMaj = nd.DataOrder().IsColMajor()
		st.op, st.snap = st.op, nil
		noop := model.IsIdentity(p) || model.Size(before.Shape) <= 1 || rank < 2
		if physical || noop {
			st.base, st.prev, st.pend = nil, nil, nil
		} else {
			st.base, st.prev, st.pend = before, before, append([]int(nil), p...)
		}
		if !j.content(st, o.kind, "wrong-copy") {
			return false
		}
		if physical && !noop {
			return j.physical(st, o.kind)
		}
		return true
	}
	switch o.kind {
	case "T(p)":
		return lazyT(o.perm, func() error { return d.T(o.perm...) })
	case "T()":
		return lazyT(model.Reversal(rank), func() error { return d.T() })
	case "UT":
		pp, msg := core.Catch(func() { d.UT() })
		if pp {
			j.viol(st, "UT", "panic", "restored tensor", msg)
			return false
		}
		if st.base == nil {
			return j.content(st, "UT", "changed-without-pending")
		}
		// accepted readings: undo the last lazy transpose, or undo all of them
		cands := []*model.ND{st.prev, st.base}
		for _, cand := range cands {
			if gen.ReadMatches(d, cand) == nil {
				st.cur = cand
				st.base, st.prev, st.pend = nil, nil, nil
				return j.frame(st, "UT")
			}
		}
		sym := "not-restored"
		if st.prev != st.base {
			sym = "not-restored-after-stacked"
		}
		st.cur = st.prev
		j.content(st, "UT", sym)
		return false
	case "Transpose":
		pp, msg := core.Catch(func() { err = d.Transpose() })
		if pp {
			j.viol(st, "Transpose", "panic", "moved data", msg)
			return false
		}
		if err != nil {
			if !st.isRoot && st.base != nil {
				if j.content(st, "Transpose", "changed-by-refused-call") && j.frame(st, "Transpose") {
					j.c.Refused("physical-transpose-of-view")
				}
				return false
			}
			j.viol(st, "Transpose", "error-on-valid", "moved data", err.Error())
			return false
		}
		hadPending := st.base != nil
		st.base, st.prev, st.pend = nil, nil, nil
		sym := "logical-element-changed"
		if !hadPending {
			sym = "changed-without-pending"
		}
		if !j.frame(st, "Transpose") {
			return false
		}
		if !j.content(st, "Transpose", sym) {
			return false
		}
		if hadPending {
			return j.physical(st, "Transpose")
		}
		return true
	case "Materialize":
		var res tensor.Tensor
		before := gen.MetaOf(d)
		pp, msg := core.Catch(func() { res = d.Materialize() })
		if pp {
			j.viol(st, "Materialize", "panic", "a copy", msg)
			return false
		}
		nd, ok := res.(*tensor.Dense)
		if !ok {
			j.viol(st, "Materialize", "not-dense", "*Dense", fmt.Sprintf("%T", res))
			return false
		}
		if nd == d {
			return j.content(st, "Materialize", "self-changed")
		}
		if diff := before.Diff(gen.MetaOf(d)); diff != "" {
			j.viol(st, "Materialize", "source-metadata-changed", "source untouched", diff)
			return false
		}
		if e := gen.ReadMatches(d, st.cur); e != nil {
			j.viol(st, "Materialize", "source-changed", "source untouched", e.Error())
			return false
		}
		if overlaps(nd, d) {
			j.viol(st, "Materialize", "copy-shares-storage", "disjoint storage", "overlap")
			return false
		}
		st.keep = append(st.keep, d)
		st.d, st.isRoot, st.snap = nd, true, nil
		st.colMaj = nd.DataOrder().IsColMajor()
		st.base, st.prev, st.pend = nil, nil, nil
		if !j.content(st, "Materialize", "wrong-copy") {
			return false
		}
		return true
	case "SafeT(p)":
		return copyT(o.perm, func() (tensor.Tensor, error) { return d.SafeT(o.perm...) }, false)
	case "tensor.T":
		return copyT(o.perm, func() (tensor.Tensor, error) { return tensor.T(d, o.perm...) }, false)
	case "tensor.Transpose":
		return copyT(o.perm, func() (tensor.Tensor, error) { return tensor.Transpose(d, o.perm...) }, true)
	case "RollAxis":
		axes, moves := rollAxes(rank, o.axis, o.strt)
		if !moves {
			var res *tensor.Dense
			pp, msg := core.Catch(func() { res, err = d.RollAxis(o.axis, o.strt, o.safe) })
			if pp || err != nil {
				j.viol(st, "RollAxis", "failed-on-valid", "same tensor", fmt.Sprint(msg, err))
				return false
			}
			if res != d {
				st.keep = append(st.keep, d)
				st.d = res
			}
			return j.content(st, "RollAxis", "noop-changed")
		}
		if o.safe {
			return copyT(axes, func() (tensor.Tensor, error) { return d.RollAxis(o.axis, o.strt, true) }, false)
		}
		return lazyT(axes, func() error {
			res, e := d.RollAxis(o.axis, o.strt, false)
			if e == nil && res != d {
				return fmt.Errorf("unsafe RollAxis returned a different tensor")
			}
			return e
		})
	}
	return false
}

func (j *c03Judge) start(c *core.Ctx, t reflect.Type) *c03State {
	n := model.Size(j.shape)
	m := model.New(t, j.shape, gen.Ramp(t, n, 1))
	op, err := gen.BuildWith(m, j.src, c.Rng, engineFor(t))
	if err != nil {
		c.Inconclusive("operand-precondition:" + j.src)
		return nil
	}
	if op.Layout != j.src {
		return nil
	}
	if err := op.Validate(); err != nil {
		c.Inconclusive("operand-precondition:" + j.src)
		return nil
	}
	isView := j.src == gen.LS || j.src == gen.LSS || j.src == gen.LFS || j.src == gen.LFSS
	st := &c03State{d: op.D, cur: m, op: op, isRoot: !isView, colMaj: j.src == gen.LF || j.src == gen.LFconv || j.src == gen.LFS || j.src == gen.LFSS}
	if isView {
		st.snap = op.Snap()
	}
	return st
}

func randPerm(c *core.Ctx, rank int) []int {
	if rank == 0 {
		return []int{}
	}
	return c.Rng.Perm(rank)
}

func (j *c03Judge) randOp(c *core.Ctx, kind string, rank int) c03Op {
	o := c03Op{kind: kind}
	switch kind {
	case "T(p)", "SafeT(p)", "tensor.T", "tensor.Transpose":
		o.perm = randPerm(c, rank)
	case "RollAxis":
		if rank == 0 {
			o.kind = "UT"
			return o
		}
		o.axis = c.Rng.Intn(rank)
		o.strt = c.Rng.Intn(rank + 1)
		o.safe = c.Rng.Intn(2) == 0
	}
	return o
}

func c03Seqs(c *core.Ctx, src string, t reflect.Type, shape []int) {
	j := &c03Judge{c: c, src: src, tn: model.Name(t), shape: shape}
	fullLen := 2
	sampled := map[int]int{3: 150, 4: 150}
	if c.Tier == "thorough" {
		fullLen = 3
		sampled = map[int]int{4: 1500}
	}
	rank := len(shape)
	nontrivial := rank >= 2 && model.Size(shape) > 1
	runSeq := func(kinds []string) {
		st := j.start(c, t)
		if st == nil {
			return
		}
		key := core.Sig(src, j.tn, shapeStr(shape), strings.Join(kinds, ">"))
		for _, k := range kinds {
			o := j.randOp(c, k, len(st.cur.Shape))
			c.Eval(key, nontrivial)
			if !j.apply(st, o) {
				return
			}
		}
		if c.WantSample("seq/" + src) {
			c.Sample("seq/"+src, map[string]interface{}{"source": src, "dtype": j.tn, "shape": shape, "sequence": st.history})
		}
	}
	var rec func(prefix []string, l int)
	rec = func(prefix []string, l int) {
		if len(prefix) == l {
			runSeq(prefix)
			return
		}
		for _, k := range c03Kinds {
			rec(append(append([]string{}, prefix...), k), l)
		}
	}
	for l := 1; l <= fullLen; l++ {
		rec(nil, l)
	}
	for l, n := range sampled {
		for i := 0; i < n; i++ {
			kinds := make([]string, l)
			for k := range kinds {
				kinds[k] = c03Kinds[c.Rng.Intn(len(c03Kinds))]
			}
			runSeq(kinds)
		}
	}
	// negative control: a wrong expectation must be noticed
	if nontrivial {
		st := j.start(c, t)
		if st != nil {
			jc := &c03Judge{c: c, src: src, tn: j.tn, shape: shape, corrupt: true}
			v := append([]interface{}(nil), st.cur.V...)
			// exchange two elements that differ (bool tensors of odd length start and end with the same value)
			k := -1
			for i := len(v) - 1; i > 0; i-- {
				if !model.Same(v[0], v[i]) {
					k = i
					break
				}
			}
			if k > 0 {
				v[0], v[k] = v[k], v[0]
				st.cur = &model.ND{T: t, Shape: st.cur.Shape, V: v}
				if jc.content(st, "control", "control") {
					c.Control(false)
				}
			}
		}
	}
}

// c03Perms: every permutation of every shape through every single operation.
func c03Perms(c *core.Ctx, src string, t reflect.Type) {
	for _, shape := range c03Shapes(c.Tier) {
		rank := len(shape)
		if rank < 2 {
			continue
		}
		j := &c03Judge{c: c, src: src, tn: model.Name(t), shape: shape}
		perms := model.Perms(rank)
		nontrivial := model.Size(shape) > 1
		for _, p := range perms {
			for _, plan := range [][]c03Op{
				{{kind: "T(p)", perm: p}, {kind: "UT"}},
				{{kind: "T(p)", perm: p}, {kind: "Transpose"}},
				{{kind: "T(p)", perm: p}, {kind: "Materialize"}},
				{{kind: "SafeT(p)", perm: p}, {kind: "Transpose"}},
				{{kind: "tensor.Transpose", perm: p}},
				{{kind: "tensor.T", perm: p}, {kind: "UT"}},
			} {
				st := j.start(c, t)
				if st == nil {
					continue
				}
				key := core.Sig(src, j.tn, shapeStr(shape), fmt.Sprint(p), plan[0].kind+">"+plan[len(plan)-1].kind)
				for _, o := range plan {
					c.Eval(key, nontrivial)
					if !j.apply(st, o) {
						break
					}
				}
			}
		}
		// composition: T(p) then T(q) equals T(compose(p,q))
		for k := 0; k < 30; k++ {
			p, q := c.Rng.Perm(rank), c.Rng.Perm(rank)
			st := j.start(c, t)
			if st == nil {
				continue
			}
			key := core.Sig(src, j.tn, shapeStr(shape), "compose")
			c.Eval(key, nontrivial)
			if j.apply(st, c03Op{kind: "T(p)", perm: p}) {
				j.apply(st, c03Op{kind: "T(p)", perm: q})
			}
		}
		if c.WantSample("perm/" + src) {
			c.Sample("perm/"+src, map[string]interface{}{"source": src, "dtype": j.tn, "shape": shape, "permutations": len(perms), "plans": "T;UT | T;Transpose | T;Materialize | SafeT;Transpose | tensor.Transpose | tensor.T;UT"})
		}
	}
	c.Control(true)
}

func c03IndexHelpers(c *core.Ctx) {
	for _, shape := range c03Shapes(c.Tier) {
		rank := len(shape)
		if rank < 2 || model.Size(shape) < 2 {
			continue
		}
		oldStrides := defaultStrides(shape, false)
		for _, p := range model.Perms(rank) {
			newShape := make([]int, rank)
			for i := range p {
				newShape[i] = shape[p[i]]
			}
			newStrides := defaultStrides(newShape, false)
			key := core.Sig("TransposeIndex", shapeStr(shape))
			for i := 0; i < model.Size(shape); i++ {
				oc := model.Unrank(shape, i)
				nc := make([]int, rank)
				for k := range p {
					nc[k] = oc[p[k]]
				}
				want := model.Rank(newShape, nc)
				var got int
				pp, msg := core.Catch(func() { got = tensor.TransposeIndex(i, shape, p, oldStrides, newStrides) })
				c.Eval(key, true)
				if pp || got != want {
					c.Violation(core.Sig("TransposeIndex", "wrong-index"), fmt.Sprintf("TransposeIndex/%s%v@%d", shapeStr(shape), p, i), map[string]interface{}{"shape": shape, "perm": p, "i": i}, want, fmt.Sprint(got, msg))
				}
				// UntransposeIndex maps the new index back to the old one
				var back int
				pp, msg = core.Catch(func() { back = tensor.UntransposeIndex(want, newShape, p, newStrides, oldStrides) })
				c.Eval(key, true)
				if pp || back != i {
					c.Violation(core.Sig("UntransposeIndex", "wrong-index"), fmt.Sprintf("UntransposeIndex/%s%v@%d", shapeStr(shape), p, want), map[string]interface{}{"shape": shape, "perm": p, "i": want}, i, fmt.Sprint(back, msg))
				}
			}
		}
	}
	c.Control(tensor.TransposeIndex(1, []int{2, 3}, []int{1, 0}, []int{3, 1}, []int{2, 1}) != 1)
	c.Sample("index-helpers", map[string]interface{}{"fn": "TransposeIndex/UntransposeIndex", "checked": "every index of every shape x every permutation"})
}
