// worker is the single harness binary: `orchestrate` (parent), `batch` (child),
// `replay`, `flavours`, `list`.
package main

import (
	"encoding/json"
	"flag"
	"fmt"
	"os"
	"strings"
	"time"

	"verifharness/core"
	"verifharness/props"
)

func main() {
	if len(os.Args) < 2 {
		fmt.Fprintln(os.Stderr, "usage: worker <orchestrate|batch|replay|flavours|list> ...")
		os.Exit(2)
	}
	mode := os.Args[1]
	fs := flag.NewFlagSet(mode, flag.ExitOnError)
	prop := fs.String("prop", "", "property id")
	tier := fs.String("tier", "quick", "quick|thorough")
	seed := fs.Int64("seed", 1, "seed")
	shard := fs.Int("shard", 0, "shard index")
	n := fs.Int("n", 1, "number of shards")
	logp := fs.String("log", "", "event log path")
	flavour := fs.String("flavour", "plain", "build flavour of this binary")
	verif := fs.String("verif", "/verif", "verif directory")
	bins := fs.String("bins", "", "flavour=path,... binaries")
	rev := fs.String("rev", "", "repo revision string")
	file := fs.String("file", "", "replay file")
	childMin := fs.Int("childmin", 0, "child watchdog minutes (0: by tier)")
	fs.Parse(os.Args[2:])

	switch mode {
	case "list":
		for _, p := range props.All() {
			fmt.Println(p.ID)
		}
	case "flavours":
		p := props.Get(*prop)
		if p == nil {
			fmt.Fprintln(os.Stderr, "unknown property", *prop)
			os.Exit(2)
		}
		fl := core.FlavoursFor(p, *tier)
		fmt.Println(strings.Join(fl, " "))
	case "batch":
		p := props.Get(*prop)
		if p == nil {
			os.Exit(2)
		}
		ctx, err := core.NewCtx(p.ID, *tier, *seed, *flavour, *logp)
		if err != nil {
			fmt.Fprintln(os.Stderr, err)
			os.Exit(2)
		}
		groups := p.Groups(*tier)
		for i, g := range groups {
			if i%*n == *shard {
				ctx.RunGroup(g)
			}
		}
		if err := ctx.Close(); err != nil {
			fmt.Fprintln(os.Stderr, err)
			os.Exit(2)
		}
	case "c14decode":
		if err := props.C14Decode(*file); err != nil {
			fmt.Fprintln(os.Stderr, err)
			os.Exit(2)
		}
	case "orchestrate":
		p := props.Get(*prop)
		if p == nil {
			fmt.Fprintln(os.Stderr, "unknown property", *prop)
			os.Exit(2)
		}
		bm := map[string]string{}
		for _, kv := range strings.Split(*bins, ",") {
			if i := strings.Index(kv, "="); i > 0 {
				bm[kv[:i]] = kv[i+1:]
			}
		}
		ct := 20 * time.Minute
		if *tier == "thorough" {
			ct = 90 * time.Minute
		}
		if *childMin > 0 {
			ct = time.Duration(*childMin) * time.Minute
		}
		os.Exit(core.Orchestrate(core.OrchConfig{Prop: p, Tier: *tier, Seed: *seed, VerifDir: *verif, Bins: bm, Shards: 16, ChildTime: ct, RepoRev: *rev}))
	case "replay":
		b, err := os.ReadFile(*file)
		if err != nil {
			fmt.Fprintln(os.Stderr, err)
			os.Exit(2)
		}
		var rep struct {
			Property string         `json:"property"`
			Sig      string         `json:"sig"`
			Witness  core.Violation `json:"witness"`
		}
		if err := json.Unmarshal(b, &rep); err != nil {
			fmt.Fprintln(os.Stderr, err)
			os.Exit(2)
		}
		if *mode2(fs) == "flavour" {
			fmt.Println(rep.Witness.Flavour)
			return
		}
		p := props.Get(rep.Property)
		if p == nil {
			os.Exit(2)
		}
		w := rep.Witness
		ctx, _ := core.NewCtx(p.ID, w.Tier, w.Seed, *flavour, "")
		found := false
		for _, g := range p.Groups(w.Tier) {
			if g.Key == w.Group {
				found = true
				ctx.RunGroup(g)
			}
		}
		if !found {
			fmt.Fprintf(os.Stderr, "group %q not found\n", w.Group)
			os.Exit(2)
		}
		by := ctx.ViolBySig()
		if by[rep.Sig] > 0 {
			fmt.Printf("VIOLATION property=%s replay=%s\n  reproduced: signature %s in group %s (%d cases)\n", p.ID, *file, rep.Sig, w.Group, by[rep.Sig])
			os.Exit(1)
		}
		fmt.Printf("not reproduced: signature %s in group %s (other signatures seen: %v)\n", rep.Sig, w.Group, by)
	default:
		fmt.Fprintln(os.Stderr, "unknown mode", mode)
		os.Exit(2)
	}
}

var printWhat = ""

func mode2(fs *flag.FlagSet) *string {
	if fs.NArg() > 0 {
		printWhat = fs.Arg(0)
	}
	return &printWhat
}
