#!/usr/bin/env python3
"""Regenerates the generated tables of DESIGN.md (between the BEGIN/END GENERATED markers) from known_findings.json and seeded/*/meta.json."""
import json,glob,os,re,subprocess
kf=json.load(open('/verif/known_findings.json'))['findings']
out=[]
out.append('#### Known findings (from known_findings.json)\n')
out.append('| id | status | properties | call site | what fails | commit / why open |')
out.append('|---|---|---|---|---|---|')
def key(f): return int(f['id'].split('-')[1])
for f in sorted(kf,key=key):
    tail=f.get('commit') or f.get('why_not_fixed','')
    wf=f['what_fails'].replace('|','\\|').replace('\n',' ')
    if len(wf)>260: wf=wf[:257]+'...'
    tail=tail.replace('|','\\|')
    if len(tail)>160: tail=tail[:157]+'...'
    out.append('| %s | %s | %s | %s | %s | %s |'%(f['id'],f['status'],' '.join(f['properties']),f['call_site'].replace('|','\\|')[:90],wf,tail))
out.append('')
out.append('#### Seeded changes (from seeded/*/meta.json)\n')
out.append('| change | breaks | files | caught by | how it shows / what it took |')
out.append('|---|---|---|---|---|')
def skey(p):
    m=re.match(r'.*/C(\d+)-(\d+)$',p); return (int(m.group(1)),int(m.group(2)))
for d in sorted(glob.glob('/verif/seeded/C*-*'),key=skey):
    m=json.load(open(d+'/meta.json'))
    summ=m.get('summary','').replace('|','\\|').replace('\n',' ')
    if len(summ)>200: summ=summ[:197]+'...'
    note=m.get('note','').replace('|','\\|').replace('\n',' ')
    if len(note)>300: note=note[:297]+'...'
    out.append('| %s | %s | %s | %s | %s — %s |'%(os.path.basename(d),m.get('breaks_property') or m.get('property'),' '.join(m.get('files',[]))[:70],' '.join(m.get('caught_by',[])),summ,note))
txt='\n'.join(out)+'\n'
p='/verif/DESIGN.md'
s=open(p).read()
b,e='<!-- BEGIN GENERATED TABLES -->','<!-- END GENERATED TABLES -->'
if b in s:
    s=s[:s.index(b)+len(b)]+'\n'+txt+s[s.index(e):]
    open(p,'w').write(s)
    print('tables regenerated:',len(kf),'findings')
else:
    print(txt[:2000])
