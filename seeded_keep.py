#!/usr/bin/env python3
"""seeded_keep.py <src dir> <name> <caught_by_checks> <note>: store a confirmed seeded change under /verif/seeded/<name>/."""
import json,sys,shutil,os,subprocess
src,name,caught,note=sys.argv[1:5]
dst=f'/verif/seeded/{name}'
os.makedirs(dst,exist_ok=True)
for f in ('patch.diff','verif_demo_test.go'):
    shutil.copy(os.path.join(src,f),dst)
m=json.load(open(os.path.join(src,'meta.json')))
m['breaks_property']=m.get('property')
m['needs_to_manifest']=m.get('needs')
m['confirmed']={'how':'seeded_verify.sh: scratch worktree of /repo HEAD; demo passes on HEAD, fails with the patch; go build -tags verif and the full suite pass with the patch (only the baseline always-fail TestSaveLoadNumpy fails)','repo_rev':subprocess.check_output(['git','-C','/repo','rev-parse','--short','HEAD']).decode().strip()}
m['caught_by']=caught.split(',') if caught else []
m['note']=note
json.dump(m,open(os.path.join(dst,'meta.json'),'w'),indent=1)
print('kept',dst)
