#!/usr/bin/env python3
import json,glob,sys
prop=sys.argv[1]
flt=sys.argv[2] if len(sys.argv)>2 else ''
rows=[]
for f in sorted(glob.glob(f'/verif/replays/{prop}/*.json')):
    d=json.load(open(f))
    if flt and flt not in d['sig']: continue
    w=d.get('witness',{})
    rows.append((d['sig'],d['count'],w.get('case'),w.get('want'),str(w.get('got'))[:220],w.get('flavour')))
rows.sort()
for r in rows: print(' | '.join(str(x) for x in r))
