#!/usr/bin/env python3
"""Regenerates MANIFEST.json from manifest_src.json (kept by hand) so the file is always schema-valid."""
import json, sys, subprocess
src = json.load(open('/verif/manifest_src.json'))
props = [json.loads(l) for l in open('/verif/properties.jsonl')]
ids = [p['id'] for p in props]
checks = []
na = []
for pid in ids:
    c = src['checks'].get(pid)
    if c is None or c.get('not_applicable'):
        na.append({"property_id": pid, "reason": (c or {}).get('reason', 'check not built yet (work in progress)')})
        continue
    checks.append({
        "property_id": pid,
        "quick_cmd": f"./check {pid} quick",
        "thorough_cmd": f"./check {pid} thorough",
        "evidence_file": f"/verif/evidence/{pid}.json",
        "replay_cmd_template": f"./check {pid} quick --replay {{path}}",
        "engine": "worker",
        "level_claimed": {"category": "exploration", "text": c['text'], "design_ref": c.get('design_ref', '§6 ' + pid)},
        "level_note": c['note'],
        "technique": c['technique'],
    })
m = {
    "version": 1,
    "setup_cmd": "./check --setup",
    "hooks": src['hooks'],
    "engines": src['engines'],
    "checks": checks,
    "notes": src['notes'],
    "not_applicable": na,
}
json.dump(m, open('/verif/MANIFEST.json', 'w'), indent=1)
try:
    import jsonschema
    jsonschema.validate(m, json.load(open('/root/.vp/MANIFEST.schema.json')))
    print("MANIFEST.json valid;", len(checks), "checks,", len(na), "not_applicable")
except ImportError:
    print("written (jsonschema not importable here)")
